----------------------------- MODULE Assertions -----------------------------
(***************************************************************************)
(* Runtime assertions of pedal (pedal/assertions/runtime.py,               *)
(* utilities/comparisons.py) over an abstract value universe.              *)
(* CONTRACT: Holds(A, l, r) in {"T","F","U"} is Python's relation composed *)
(* with the documented float tolerance (|l-r| < 0.001 when both operands   *)
(* are numbers and either is a float) and string normalisation; an         *)
(* assertion stays silent iff Holds = "T"; "U" (relation cannot be         *)
(* evaluated, or an operand is a failed call) counts as not holding.       *)
(* Design theorems checked by TLC on the table itself: Complement,         *)
(* EqSymmetric.  The second part is the unit_test counting machine.        *)
(* Numbers are in units of 1/10000.                                        *)
(***************************************************************************)
EXTENDS Integers, Sequences, FiniteSets, TLC, Json

CONSTANTS ValNames, Asserts, MaxCases, Flags

V(k, x, core, deco, e) == [k |-> k, x |-> x, core |-> core, deco |-> deco, e |-> e]
Sc(k, x) == V(k, x, "-", "-", <<>>)
St(core, deco) == V("str", 0, core, deco, <<>>)
Val(n) == CASE n = "i1" -> Sc("int", 10000) [] n = "i2" -> Sc("int", 20000) [] n = "i0" -> Sc("int", 0)
            [] n = "bT" -> Sc("bool", 10000) [] n = "bF" -> Sc("bool", 0)
            [] n = "f1" -> Sc("float", 10000) [] n = "f1c" -> Sc("float", 10005) [] n = "f1f" -> Sc("float", 10020)
            [] n = "f2" -> Sc("float", 20000)
            [] n = "abc" -> St("abc", "plain") [] n = "ABC" -> St("abc", "upper") [] n = "abc!" -> St("abc", "punct")
            [] n = "abd" -> St("abd", "plain") [] n = "empty" -> St("", "plain")
            [] n = "none" -> Sc("none", 0) [] n = "err" -> Sc("err", 0)
            [] n = "errx" -> Sc("err", 0)          \* a call that failed by exiting the interpreter (SystemExit) is a failed call too
            [] n = "L12" -> V("list", 0, "-", "-", <<Sc("int", 10000), Sc("int", 20000)>>)
            [] n = "L12c" -> V("list", 0, "-", "-", <<Sc("int", 10000), Sc("float", 20005)>>)
            [] n = "L1f2" -> V("list", 0, "-", "-", <<Sc("float", 10000), Sc("int", 20000)>>)
            [] n = "L0" -> V("list", 0, "-", "-", <<>>)
            [] n = "T12" -> V("tuple", 0, "-", "-", <<Sc("int", 10000), Sc("int", 20000)>>)
            [] n = "Labc" -> V("list", 0, "-", "-", <<St("abc", "plain"), St("abd", "plain")>>)
            [] n = "LABC" -> V("list", 0, "-", "-", <<St("abc", "upper"), St("abd", "plain")>>)
            \* dictionaries with one key: core/deco describe the key text, x the value
            [] n = "D_A1" -> V("dict", 10000, "abc", "upper", <<>>) [] n = "D_a2" -> V("dict", 20000, "abc", "plain", <<>>)
            [] n = "D_a1" -> V("dict", 10000, "abc", "plain", <<>>)
            [] n = "huge" -> Sc("int", 2000000000)         \* stands for 10**400: an int no float can hold
            \* sets (only partially ordered by inclusion), a float NaN (unordered, unequal to everything) and infinity
            [] n = "S1" -> V("set", 0, "-", "-", <<Sc("int", 10000)>>) [] n = "S2" -> V("set", 0, "-", "-", <<Sc("int", 20000)>>)
            [] n = "S12" -> V("set", 0, "-", "-", <<Sc("int", 10000), Sc("int", 20000)>>)
            [] n = "Sf" -> V("set", 0, "-", "-", <<Sc("float", 10000), Sc("float", 10005)>>)
            [] n = "Sg" -> V("set", 0, "-", "-", <<Sc("float", 10000), Sc("float", 20000)>>)
            [] n = "nan" -> Sc("nan", 0) [] n = "inf" -> Sc("float", 2100000000)
            \* one-shot lazy iterables (a reversed-iterator, a map object: the kinds the comparison documents as list generators) yielding 1, 2: the documented equality materialises them,
            \* so they stand for the list of their elements; each use gets a FRESH iterator
            [] n \in {"R12", "M12"} -> V("list", 0, "-", "-", <<Sc("int", 10000), Sc("int", 20000)>>)
            \* an object of a student class whose __repr__ and __str__ raise: equal to nothing but itself, unordered, truthy
            [] n = "Brepr" -> Sc("obj", 0)
            \* an object with an attribute named `value` holding 0: equal to nothing but itself, truthy - not its value
            [] n = "Vobj" -> Sc("obj", 1)
            \* instances of one dataclass with two fields: equal field by field (with the documented tolerance), unordered
            [] n = "DC12" -> V("dc", 0, "-", "-", <<Sc("int", 10000), Sc("int", 20000)>>)
            [] n = "DC13" -> V("dc", 0, "-", "-", <<Sc("int", 10000), Sc("int", 30000)>>)
            [] n = "DC12c" -> V("dc", 0, "-", "-", <<Sc("int", 10000), Sc("float", 20005)>>)
            [] n = "T123" -> V("tuple", 0, "-", "-", <<Sc("int", 10000), Sc("int", 20000), Sc("int", 30000)>>)
            [] n = "L1a" -> V("list", 0, "-", "-", <<Sc("int", 10000), St("abc", "plain")>>)
            [] n = "T1a" -> V("tuple", 0, "-", "-", <<Sc("int", 10000), St("abc", "plain")>>)
            [] OTHER -> Sc("none", 0)

Numeric(v) == v.k \in {"int", "bool", "float"}
Abs(n) == IF n < 0 THEN -n ELSE n
Delta == 10
RECURSIVE PyEq(_, _)
PyEq(l, r) == IF l.k = "nan" \/ r.k = "nan" THEN FALSE
              ELSE IF l.k = "set" /\ r.k = "set"
                   THEN (\A i \in 1..Len(l.e) : \E j \in 1..Len(r.e) : PyEq(l.e[i], r.e[j]))
                        /\ (\A j \in 1..Len(r.e) : \E i \in 1..Len(l.e) : PyEq(l.e[i], r.e[j]))
              ELSE IF Numeric(l) /\ Numeric(r) THEN l.x = r.x
              ELSE IF l.k = "str" /\ r.k = "str" THEN l.core = r.core /\ l.deco = r.deco
              ELSE IF l.k = r.k /\ l.k \in {"list", "tuple", "dc"}
                   THEN Len(l.e) = Len(r.e) /\ \A i \in 1..Len(l.e) : PyEq(l.e[i], r.e[i])
              ELSE IF l.k = "dict" /\ r.k = "dict" THEN l.core = r.core /\ l.deco = r.deco /\ l.x = r.x
              ELSE l.k = "none" /\ r.k = "none"
\* Operand pairs on which the documented equality cannot be computed: the float tolerance needs float(10**400)
\* (OverflowError); dictionaries whose keys agree only after normalisation (the value lookup fails).  On these
\* assert_equal must fail (the operands are not equal under any reading); assert_not_equal is left unspecified.
IsHuge(v) == v.k = "int" /\ v.x = 2000000000
Uneval(l, r) == \/ (IsHuge(l) /\ r.k \in {"float", "nan"}) \/ (IsHuge(r) /\ l.k \in {"float", "nan"})
                \/ (l.k = "dict" /\ r.k = "dict" /\ l.core = r.core /\ l.deco # r.deco)
\* documented equality: tolerance when either side is a float, normalised strings, recursion into sequences
RECURSIVE Eq(_, _)
Eq(l, r) == IF l.k = "nan" \/ r.k = "nan" THEN FALSE
            \* sets: same size and the elements pair off one-to-one under the tolerant equality
            ELSE IF l.k = "set" /\ r.k = "set"
                 THEN /\ Len(l.e) = Len(r.e)
                      /\ \/ Len(l.e) = 0
                         \/ Len(l.e) = 1 /\ Eq(l.e[1], r.e[1])
                         \/ Len(l.e) = 2 /\ ((Eq(l.e[1], r.e[1]) /\ Eq(l.e[2], r.e[2])) \/ (Eq(l.e[1], r.e[2]) /\ Eq(l.e[2], r.e[1])))
            ELSE IF Numeric(l) /\ Numeric(r)
            THEN (IF "float" \in {l.k, r.k} THEN Abs(l.x - r.x) < Delta ELSE l.x = r.x)
            ELSE IF l.k = "str" /\ r.k = "str" THEN l.core = r.core
            ELSE IF l.k = r.k /\ l.k \in {"list", "tuple", "dc"}
                 THEN Len(l.e) = Len(r.e) /\ \A i \in 1..Len(l.e) : Eq(l.e[i], r.e[i])
            ELSE PyEq(l, r)
\* the pinned code applied the tolerance only when the EXPECTED (right) operand is a float
RECURSIVE EqExpectedOnly(_, _)
EqExpectedOnly(l, r) == IF l.k \in {"nan", "set"} \/ r.k \in {"nan", "set"} THEN Eq(l, r)
            ELSE IF Numeric(l) /\ Numeric(r)
            THEN (IF r.k = "float" THEN Abs(l.x - r.x) < Delta ELSE l.x = r.x)
            ELSE IF l.k = "str" /\ r.k = "str" THEN l.core = r.core
            ELSE IF l.k = r.k /\ l.k \in {"list", "tuple", "dc"}
                 THEN Len(l.e) = Len(r.e) /\ \A i \in 1..Len(l.e) : EqExpectedOnly(l.e[i], r.e[i])
            ELSE PyEq(l, r)
EqUsed(l, r) == IF "tolerance_expected_only" \in Flags THEN EqExpectedOnly(l, r) ELSE Eq(l, r)

StrRank(v) == IF v.core = "" THEN 0 ELSE IF v.core = "abd" THEN 4
              ELSE IF v.deco = "upper" THEN 1 ELSE IF v.deco = "plain" THEN 2 ELSE 3
RECURSIVE Ord(_, _)
RECURSIVE SeqOrd(_, _, _)
\* "inc": the operands are comparable without error but NONE of <, <=, >, >= holds (NaN; sets that are not nested)
SubsetOf(l, r) == \A i \in 1..Len(l.e) : \E j \in 1..Len(r.e) : PyEq(l.e[i], r.e[j])
Ord(l, r) == IF (l.k = "nan" /\ (Numeric(r) \/ r.k = "nan")) \/ (r.k = "nan" /\ Numeric(l)) THEN "inc"
             ELSE IF l.k = "set" /\ r.k = "set"
                  THEN (IF SubsetOf(l, r) /\ SubsetOf(r, l) THEN "eq" ELSE IF SubsetOf(l, r) THEN "lt"
                        ELSE IF SubsetOf(r, l) THEN "gt" ELSE "inc")
             ELSE IF Numeric(l) /\ Numeric(r) THEN (IF l.x < r.x THEN "lt" ELSE IF l.x = r.x THEN "eq" ELSE "gt")
             ELSE IF l.k = "str" /\ r.k = "str"
                  THEN (IF StrRank(l) < StrRank(r) THEN "lt" ELSE IF StrRank(l) = StrRank(r) THEN "eq" ELSE "gt")
             ELSE IF l.k = r.k /\ l.k \in {"list", "tuple"}
                  THEN SeqOrd(l, r, 1)
             ELSE "U"
\* lexicographic: the first position where the elements differ decides, a proper prefix is smaller
SeqOrd(l, r, i) == IF i > Len(l.e) /\ i > Len(r.e) THEN "eq" ELSE IF i > Len(l.e) THEN "lt" ELSE IF i > Len(r.e) THEN "gt"
                   ELSE IF ~PyEq(l.e[i], r.e[i]) THEN Ord(l.e[i], r.e[i]) ELSE SeqOrd(l, r, i + 1)
Truthy(v) == CASE v.k = "nan" -> TRUE [] v.k = "set" -> v.e # <<>> [] Numeric(v) -> v.x # 0 [] v.k = "str" -> v.core # "" [] v.k \in {"list", "tuple"} -> v.e # <<>>
               [] v.k \in {"dict", "obj", "dc"} -> TRUE
               [] OTHER -> FALSE
HasLen(v) == v.k \in {"str", "list", "tuple", "dict", "set"}
LenOf(v) == IF v.k = "dict" THEN 1 ELSE IF v.k = "str" THEN (IF v.core = "" THEN 0 ELSE 3 + (IF v.deco = "punct" THEN 1 ELSE 0)) ELSE Len(v.e)
\* substring relation among the strings of the universe (case-sensitive, exact text)
SubStr(n, h) == \/ n.core = "" \/ (n.core = h.core /\ n.deco = h.deco) \/ (n.core = "abc" /\ n.deco = "plain" /\ h.core = "abc" /\ h.deco = "punct")
B(x) == IF x THEN "T" ELSE "F"
Neg(t) == IF t = "T" THEN "F" ELSE IF t = "F" THEN "T" ELSE t
\* (a set needle is looked up as a frozenset by set.__contains__, so `{1} in {1}` is simply False, not an error)
In(l, r) == IF r.k = "set" THEN (IF l.k \in {"list", "dict", "dc"} THEN "U"          \* (a dataclass with eq=True is unhashable) ELSE IF l.k = "set" THEN "F"
                                 ELSE B(\E i \in 1..Len(r.e) : PyEq(l, r.e[i])))
            ELSE IF r.k \in {"list", "tuple"} THEN B(\E i \in 1..Len(r.e) : PyEq(l, r.e[i]))
            ELSE IF r.k = "str" THEN (IF l.k = "str" THEN B(SubStr(l, r)) ELSE "U")
            ELSE IF r.k = "dict" THEN (IF l.k \in {"list", "dict", "set", "dc"} THEN "U"      \* unhashable needle
                                       ELSE B(l.k = "str" /\ l.core = r.core /\ l.deco = r.deco))
            ELSE "U"
Cmp(l, r, ok) == IF Ord(l, r) = "U" THEN "U" ELSE B(Ord(l, r) \in ok)
\* len(seq) <rel> n : equality with a non-number is simply False, ordering against a non-number cannot be evaluated
LenRel(l, r, ok) == IF ~HasLen(l) THEN "U"
                    ELSE IF r.k = "nan" THEN B(ok = {"lt", "gt"})          \* only != holds against NaN
                    ELSE IF ~Numeric(r) THEN (IF ok = {"eq"} THEN "F" ELSE IF ok = {"lt", "gt"} THEN "T" ELSE "U")
                    ELSE B((IF LenOf(l) * 10000 < r.x THEN "lt" ELSE IF LenOf(l) * 10000 = r.x THEN "eq" ELSE "gt") \in ok)

Holds(a, l, r) ==
    IF l.k = "err" \/ r.k = "err" THEN "U" ELSE
    CASE a = "equal" -> (IF Uneval(l, r) THEN "F" ELSE B(EqUsed(l, r)))
      [] a = "not_equal" -> (IF Uneval(l, r) THEN "XU" ELSE B(~EqUsed(l, r)))
      [] a = "less" -> Cmp(l, r, {"lt"}) [] a = "less_equal" -> Cmp(l, r, {"lt", "eq"})
      [] a = "greater" -> Cmp(l, r, {"gt"}) [] a = "greater_equal" -> Cmp(l, r, {"gt", "eq"})
      [] a = "in" -> In(l, r) [] a = "not_in" -> Neg(In(l, r))
      [] a = "is_none" -> B(l.k = "none") [] a = "is_not_none" -> B(l.k # "none")
      [] a = "true" -> B(Truthy(l)) [] a = "false" -> B(~Truthy(l))
      [] a = "length_equal" -> LenRel(l, r, {"eq"}) [] a = "length_not_equal" -> LenRel(l, r, {"lt", "gt"})
      [] a = "length_less" -> LenRel(l, r, {"lt"}) [] a = "length_greater_equal" -> LenRel(l, r, {"gt", "eq"})
      [] OTHER -> "U"
Unary(a) == a \in {"is_none", "is_not_none", "true", "false"}
\* operand domains of the assertion families added after the first table
IdentityVals == {"none", "bT", "i1", "i2", "L12", "L0"}         \* singletons cached by CPython, and lists (always distinct objects)
TypeNames == {"t:int", "t:float", "t:str", "t:list", "t:bool", "t:tuple"}
\* type expressions accepted by assert_type: builtin classes, their names as strings, generic aliases (object and
\* string), the literal forms [int] and (int, int)
TypeExprs == {"t:int", "t:float", "t:str", "t:list", "t:bool", "t:tuple", "t:dict", "s:int", "s:str", "s:list",
              "g:list_int", "sg:list_int", "g:list_str", "lit:list_int", "tt:int_int", "sg:tuple_int_str", "sg:dict_str_int"}
\* "T"/"F" where pedal's documented value typing is unambiguous, "X" = left unspecified (heterogeneous containers):
\* only the complement law is demanded there
ElemsAre(v, k) == \A i \in 1..Len(v.e) : v.e[i].k = k
NoElemIs(v, k) == \A i \in 1..Len(v.e) : v.e[i].k # k
\* a list with an element of another type is not a list of k; lists mixing ints and floats are left unspecified (pedal
\* deliberately lets the two number types stand in for each other), there only the complement law is demanded
ListOf(v, k) == IF v.k # "list" THEN "F" ELSE IF ElemsAre(v, k) THEN "T"
                ELSE IF k \in {"int", "float"} /\ (\A i \in 1..Len(v.e) : v.e[i].k \in {"int", "float"}) THEN "X" ELSE "F"
TypeMatch(v, t) ==
    CASE t \in {"t:int", "s:int"} -> B(v.k = "int") [] t = "t:float" -> B(v.k \in {"float", "nan"}) [] t \in {"t:str", "s:str"} -> B(v.k = "str")
      [] t = "t:bool" -> B(v.k = "bool") [] t \in {"t:list", "s:list"} -> B(v.k = "list") [] t = "t:tuple" -> B(v.k = "tuple")
      [] t = "t:dict" -> B(v.k = "dict")
      [] t \in {"g:list_int", "sg:list_int", "lit:list_int"} -> ListOf(v, "int")
      [] t = "g:list_str" -> ListOf(v, "str")
      [] t = "tt:int_int" -> B(v.k = "tuple" /\ Len(v.e) = 2 /\ ElemsAre(v, "int"))
      [] t = "sg:tuple_int_str" -> B(v.k = "tuple" /\ Len(v.e) = 2 /\ v.e[1].k = "int" /\ v.e[2].k = "str")
      [] t = "sg:dict_str_int" -> B(v.k = "dict")           \* every dictionary of the universe maps a str to an int
      [] OTHER -> "U"
Patterns == {"re:ab.", "re:^b", "re:z", "re:[0-9]"}
\* output assertions: the left operand is an execution that printed, the right one the expected text
Outputs == {"o:abc", "o:ABC!", "o:abd", "o:none", "o:two", "o:abcnn", "err", "errx"}      \* o:abcnn: print('abc'); print()
OutTexts == {"abc", "ABC", "abc!", "abd", "empty", "two"}
OutFam(a) == a \in {"output", "not_output", "output_contains", "not_output_contains", "output_exact", "not_output_exact"}
\* exact_strings=True: character by character, after the ONE line end that the final print() adds is taken off
ExactOut(o) == CASE o = "o:abc" -> "abc" [] o = "o:ABC!" -> "ABC!" [] o = "o:abd" -> "abd" [] o = "o:none" -> ""
                 [] o = "o:two" -> "abd\nabc" [] o = "o:abcnn" -> "abc\n" [] OTHER -> "?"
ExactText(t) == CASE t = "abc" -> "abc" [] t = "ABC" -> "ABC" [] t = "abc!" -> "abc!" [] t = "abd" -> "abd" [] t = "empty" -> ""
                  [] t = "two" -> "abc\nabd" [] OTHER -> "??"
\* documented normal form: lower-case, punctuation removed, split into lines, empty lines dropped, lines sorted
NF(x) == CASE x \in {"o:abc", "o:ABC!", "o:abcnn", "abc", "ABC", "abc!"} -> {"abc"} [] x \in {"o:abd", "abd"} -> {"abd"}
           [] x \in {"o:two", "two"} -> {"abc", "abd"} [] OTHER -> {}
\* lower-cased text IN lower-cased output (run of characters anywhere); o:two prints "abd" then "abc"
ContainsPairs == {<<o, "empty">> : o \in Outputs \ {"err", "errx"}}
    \cup {<<"o:abcnn", "abc">>, <<"o:abcnn", "ABC">>}
    \cup {<<"o:abc", "abc">>, <<"o:abc", "ABC">>, <<"o:ABC!", "abc">>, <<"o:ABC!", "ABC">>, <<"o:ABC!", "abc!">>,
          <<"o:two", "abc">>, <<"o:two", "ABC">>, <<"o:abd", "abd">>, <<"o:two", "abd">>}
LazyNames == {"R12", "M12"}
LDom(a) == IF OutFam(a) THEN Outputs
           ELSE IF a \in {"equal", "not_equal"} THEN ValNames \cup LazyNames
           ELSE IF a \in {"is", "is_not"} THEN IdentityVals \cap ValNames
           ELSE IF a \in {"regex", "not_regex"} THEN Patterns ELSE ValNames
RDom(a) == IF OutFam(a) THEN OutTexts
           ELSE IF Unary(a) THEN {"none"}
           ELSE IF a \in {"is", "is_not"} THEN IdentityVals \cap ValNames
           ELSE IF a \in {"is_instance", "not_is_instance"} THEN TypeNames
           ELSE IF a \in {"type", "not_type"} THEN TypeExprs
           ELSE IF a \in {"regex", "not_regex"} THEN {"abc", "ABC", "abc!", "abd", "empty", "i1", "L12", "none", "err"} \cap (ValNames \cup {"err"})
           ELSE ValNames
InstanceOf(v, t) == CASE t = "t:int" -> v.k \in {"int", "bool"} [] t = "t:float" -> v.k \in {"float", "nan"} [] t = "t:str" -> v.k = "str"
                      [] t = "t:list" -> v.k = "list" [] t = "t:bool" -> v.k = "bool" [] t = "t:tuple" -> v.k = "tuple" [] OTHER -> FALSE
\* re.search(pattern, str(text)) on the universe's texts
TextOf(n) == CASE n = "abc" -> "abc" [] n = "ABC" -> "ABC" [] n = "abc!" -> "abc!" [] n = "abd" -> "abd" [] n = "empty" -> ""
               [] n = "i1" -> "1" [] n = "L12" -> "[1, 2]" [] n = "none" -> "None" [] OTHER -> "?"
Matches(p, t) == CASE p = "re:ab." -> t \in {"abc", "abc!", "abd"}      \* 'ab' followed by any character
                   [] p = "re:^b" -> FALSE
                   [] p = "re:z" -> FALSE
                   [] p = "re:[0-9]" -> t \in {"1", "[1, 2]"}
                   [] OTHER -> FALSE
HoldsN(a, ln, rn) ==
    \* families whose relation is about object identity, types or patterns: defined on operand NAMES
    IF Val(ln).k = "err" \/ Val(rn).k = "err" THEN "U" ELSE
    CASE a = "is" -> B(ln = rn /\ Val(ln).k \in {"none", "bool", "int"})
      [] a = "is_not" -> B(~(ln = rn /\ Val(ln).k \in {"none", "bool", "int"}))
      [] a = "is_instance" -> B(InstanceOf(Val(ln), rn))
      [] a = "not_is_instance" -> B(~InstanceOf(Val(ln), rn))
      [] a = "type" -> TypeMatch(Val(ln), rn) [] a = "not_type" -> Neg(TypeMatch(Val(ln), rn))
      [] a = "output" -> B(NF(ln) = NF(rn)) [] a = "not_output" -> B(NF(ln) # NF(rn))
      [] a = "output_exact" -> B(ExactOut(ln) = ExactText(rn)) [] a = "not_output_exact" -> B(ExactOut(ln) # ExactText(rn))
      [] a = "output_contains" -> B(<<ln, rn>> \in ContainsPairs) [] a = "not_output_contains" -> B(<<ln, rn>> \notin ContainsPairs)
      [] a = "regex" -> B(Matches(ln, TextOf(rn)))
      [] a = "not_regex" -> B(~Matches(ln, TextOf(rn)))
      [] OTHER -> "U"
ByName(a) == OutFam(a) \/ a \in {"is", "is_not", "is_instance", "not_is_instance", "regex", "not_regex", "type", "not_type"}
Negation(a) == CASE a = "equal" -> "not_equal" [] a = "in" -> "not_in" [] a = "is_none" -> "is_not_none"
                 [] a = "true" -> "false" [] a = "less" -> "greater_equal" [] a = "greater" -> "less_equal"
                 [] a = "length_equal" -> "length_not_equal" [] a = "length_less" -> "length_greater_equal"
                 [] a = "is" -> "is_not" [] a = "is_instance" -> "not_is_instance" [] a = "regex" -> "not_regex" [] a = "type" -> "not_type"
                 [] a = "output_exact" -> "not_output_exact"
                 [] a = "output" -> "not_output" [] a = "output_contains" -> "not_output_contains"
                 [] OTHER -> "-"

(* ---------- state machine: one assertion call, or one unit_test ---------- *)
VARIABLES kind, a, l, r, verdict, cases, done, passed
vars == <<kind, a, l, r, verdict, cases, done, passed>>
Outcomes == {"pass", "wrong", "raises"}
SeqsUpTo(S, n) == UNION {[1..k -> S] : k \in 1..n}

HoldsAny(aa, x, y) == IF ByName(aa) THEN HoldsN(aa, x, y) ELSE Holds(aa, Val(x), Val(y))
Init == \/ /\ kind = "assert" /\ a \in Asserts /\ l \in LDom(a) /\ r \in RDom(a)
           /\ verdict = "pending" /\ cases = <<>> /\ done = 0 /\ passed = 0
        \/ /\ kind = "unit_test" /\ MaxCases > 0 /\ a = "equal" /\ l = "none" /\ r = "none" /\ verdict = "pending"
           /\ cases \in SeqsUpTo(Outcomes, MaxCases) /\ done = 0 /\ passed = 0

DoAssert == /\ kind = "assert" /\ verdict = "pending"
            /\ verdict' = IF HoldsAny(a, l, r) = "T" THEN "silent" ELSE IF HoldsAny(a, l, r) \in {"X", "XU"} THEN "any" ELSE "fails"
            /\ UNCHANGED <<kind, a, l, r, cases, done, passed>>
\* unit_test: cases are processed in order; each is an assert_equal on the result of a call
RunCase == /\ kind = "unit_test" /\ done < Len(cases)
           /\ done' = done + 1 /\ passed' = passed + (IF cases[done + 1] = "pass" THEN 1 ELSE 0)
           /\ UNCHANGED <<kind, a, l, r, verdict, cases>>
Finish == /\ kind = "unit_test" /\ done = Len(cases) /\ verdict = "pending"
          /\ verdict' = IF passed = Len(cases) THEN "success" ELSE "failure"
          /\ UNCHANGED <<kind, a, l, r, cases, done, passed>>
Next == DoAssert \/ RunCase \/ Finish
Spec == Init /\ [][Next]_vars

(* ---------- design theorems on the contract table ---------- *)
\* the table theorems do not depend on the state; they are evaluated in one designated reachable state only
TheoremState == kind = "unit_test" /\ done = 0 /\ cases = <<"pass">>
Evaluable(x, y) == Val(x).k # "err" /\ Val(y).k # "err"
\* ordering on operands of which none of <, <=, >, >= holds: both the assertion and its counterpart must fail there
\* (each is silent exactly when ITS relation holds), so the complement law is stated for the other cells
Unordered(aa, x, y) == \/ aa \in {"less", "less_equal", "greater", "greater_equal"} /\ Ord(Val(x), Val(y)) = "inc"
                       \/ aa \in {"length_less", "length_greater_equal"} /\ Val(y).k = "nan"
Complement == TheoremState => \A aa \in Asserts : Negation(aa) \in Asserts =>
    \A x \in LDom(aa), y \in RDom(aa) :
        (Val(x).k # "err" /\ Val(y).k # "err" /\ ~Unordered(aa, x, y) /\ HoldsAny(aa, x, y) \in {"T", "F"} /\ HoldsAny(Negation(aa), x, y) \in {"T", "F"}) =>
            (HoldsAny(aa, x, y) = "T" <=> HoldsAny(Negation(aa), x, y) = "F")
EqSymmetric == TheoremState => \A x \in ValNames, y \in ValNames : Holds("equal", Val(x), Val(y)) = Holds("equal", Val(y), Val(x))
NeverBothPass == TheoremState => \A aa \in Asserts : Negation(aa) \in Asserts =>
    \A x \in LDom(aa), y \in RDom(aa) :
        ~(HoldsAny(aa, x, y) = "T" /\ HoldsAny(Negation(aa), x, y) = "T")
UnitTestCount == kind = "unit_test" /\ verdict # "pending" =>
    /\ passed = Cardinality({i \in 1..Len(cases) : cases[i] = "pass"})
    /\ (verdict = "success" <=> \A i \in 1..Len(cases) : cases[i] = "pass")

Export == verdict # "pending" =>
    PrintT(<<"VP", ToJson([kind |-> kind, a |-> a, l |-> l, r |-> r, verdict |-> verdict, cases |-> cases,
                           passed |-> passed, holds |-> IF kind = "assert" THEN HoldsAny(a, l, r) ELSE "-"])>>)
=============================================================================
