---------------------------- MODULE StaticChecks ----------------------------
(***************************************************************************)
(* Static ensure_* / prevent_* checks (pedal/assertions/static.py,         *)
(* cait/find_node.py, utilities/operators.py).                             *)
(* A query is (feature, polarity, threshold) against a program in which    *)
(* the feature occurs `count` times (CPython's own ast.walk is the oracle  *)
(* for the count and the lines: a logged environment).                     *)
(* CONTRACT: ensure fires iff count < at_least; prevent fires iff          *)
(* count > at_most; the find_* function returns exactly `count` nodes; the *)
(* reported line is one of the oracle's lines.  OpNode is the documented   *)
(* symbol -> syntax-tree class table.                                      *)
(***************************************************************************)
EXTENDS Integers, Sequences, FiniteSets, TLC, Json
CONSTANTS Features, MaxCount, MaxThr, Places, Flags

\* documented operator symbols and the node class CPython uses for them
OpNode == [s \in {"==", "<", "<=", ">=", ">", "!=", "is", "is not", "in", "not in", "and", "or",
                  "+", "-", "*", "/", "//", "%", "**", ">>", "<<", "|", "^", "&", "@", "not", "~"} |->
    CASE s = "==" -> "Eq" [] s = "<" -> "Lt" [] s = "<=" -> "LtE" [] s = ">=" -> "GtE" [] s = ">" -> "Gt"
      [] s = "!=" -> "NotEq" [] s = "is" -> "Is" [] s = "is not" -> "IsNot" [] s = "in" -> "In" [] s = "not in" -> "NotIn"
      [] s = "and" -> "And" [] s = "or" -> "Or"
      [] s = "+" -> "Add" [] s = "-" -> "Sub" [] s = "*" -> "Mult" [] s = "/" -> "Div" [] s = "//" -> "FloorDiv"
      [] s = "%" -> "Mod" [] s = "**" -> "Pow" [] s = ">>" -> "RShift" [] s = "<<" -> "LShift"
      [] s = "|" -> "BitOr" [] s = "^" -> "BitXor" [] s = "&" -> "BitAnd" [] s = "@" -> "MatMult"
      [] s = "not" -> "Not" [] OTHER -> "Invert"]

VARIABLES q, fires
vars == <<q, fires>>

FiresP(pol, count, thr) == IF pol = "ensure" THEN count < thr ELSE count > thr
\* the pinned code's table had these rows wrong (kept as a mutant flag)
Visible(f, count) == IF "bad_table_rows" \in Flags /\ f \in {"op:<=", "op:>=", "op:<<", "op:>>"} THEN 0 ELSE count

Init == /\ q \in [f : Features, count : 0..MaxCount, thr : 0..MaxThr, pol : {"ensure", "prevent"}, place : Places]
        /\ fires = "pending"
Check == /\ fires = "pending"
         /\ fires' = IF FiresP(q.pol, Visible(q.f, q.count), q.thr) THEN "yes" ELSE "no"
         /\ UNCHANGED q
Next == Check
Spec == Init /\ [][Next]_vars

ThresholdLaw == fires # "pending" => (fires = "yes" <=> FiresP(q.pol, q.count, q.thr))
\* ensure(n) and prevent(n-1) are complementary for n >= 1
Export == fires # "pending" => PrintT(<<"VP", ToJson([q |-> q, fires |-> fires])>>)
=============================================================================
