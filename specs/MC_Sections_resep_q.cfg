SPECIFICATION Spec
CONSTANTS
  MaxLines = 3
  Modes = {"independent", "cumulative"}
  MaxNext = 4
  MaxSep = 2
  MinMarkers = 0
  LineKinds = {"c", "m", "f"}
  Flags = {}
INVARIANT Lossless
INVARIANT KthChunk
INVARIANT PastEndIsFeedback
INVARIANT WholeFileLines
INVARIANT Restored
INVARIANT WholeFileNoOffset
CONSTRAINT Export
CHECK_DEADLOCK FALSE
