SPECIFICATION Spec
CONSTANTS
  MaxLines = 6
  Modes = {"independent", "cumulative"}
  MaxNext = 5
  MaxSep = 1
  MinMarkers = 0
  LineKinds = {"c", "m"}
  Flags = {}
INVARIANT Lossless
INVARIANT KthChunk
INVARIANT PastEndIsFeedback
INVARIANT WholeFileLines
INVARIANT Restored
INVARIANT WholeFileNoOffset
CONSTRAINT Export
CHECK_DEADLOCK FALSE
