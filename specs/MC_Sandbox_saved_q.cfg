SPECIFICATION Spec
CONSTANTS
  EffTokens = {"pa", "wsv"}
  MaxEff = 2
  Modes = {"normal"}
  FnModes = {"normal"}
  MaxFns = 1
  Depth = 3
  InputOps = {}
  Entries = {"run", "call"}
  TracerStyles = {"none"}
  Threadeds = {FALSE}
  Givens = {"empty"}
  Blockeds = {"none"}
  Flags = {}
INVARIANT Restored
INVARIANT OutputLedger
INVARIANT InputFifo
CONSTRAINT Export
CHECK_DEADLOCK FALSE
