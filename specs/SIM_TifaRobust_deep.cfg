SPECIFICATION Spec
CONSTANTS
  Cells <- AllCells
  Ops = {"A", "C"}
  MaxOps = 9
  Progs = {"c", "d", "x", "g"}
  Flags = {}
INVARIANT RanIsDistinct
INVARIANT StartsClean
CONSTRAINT Export
CHECK_DEADLOCK FALSE
