------------------------------- MODULE TextOps -------------------------------
(* Text as a sequence of one-character strings: the operations pedal applies to captured output. *)
EXTENDS Integers, Sequences
IsWS(c) == c \in {" ", "\n", "\t", "\r"}       \* (a carriage return is white space for rstrip, not a line break for split)
RECURSIVE RStrip(_)
RStrip(s) == IF s = <<>> THEN s ELSE IF IsWS(s[Len(s)]) THEN RStrip(SubSeq(s, 1, Len(s) - 1)) ELSE s
RECURSIVE Split(_)
Split(s) == IF \E i \in 1..Len(s) : s[i] = "\n"
            THEN LET i == CHOOSE i \in 1..Len(s) : s[i] = "\n" /\ \A j \in 1..(i - 1) : s[j] # "\n"
                 IN <<SubSeq(s, 1, i - 1)>> \o Split(SubSeq(s, i + 1, Len(s)))
            ELSE <<s>>
LinesOf(share) == LET parts == Split(RStrip(share)) IN [k \in 1..Len(parts) |-> RStrip(parts[k])]
RECURSIVE Flatten(_)
Flatten(ss) == IF ss = <<>> THEN <<>> ELSE Head(ss) \o Flatten(Tail(ss))

=============================================================================
