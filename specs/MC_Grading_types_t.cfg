SPECIFICATION Spec
CONSTANTS
  Scripts = {"plain"}
  Subs = {"ok", "attrassign", "attrlit", "methodcall", "pltassign", "pltcall"}
  MaxLen = 3
  ClearResets <- CodeClearResets
  Writes <- W
  Reads <- R
  SubWrites <- SW
  SubReads <- SR
INVARIANT PristineAtStart
CONSTRAINT Export
CHECK_DEADLOCK FALSE
