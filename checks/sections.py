"""C17: sections against specs/Sections.tla (behaviour replay on Source + TIFA + sandbox)."""
import json

from engine import tlc
from engine.core import shard_map
from engine.tlc import MachineryError

MUTANTS = [("MUT_Sections_found_off_by_one.cfg", "PastEndIsFeedback"), ("MUT_Sections_runtime_no_offset.cfg", "WholeFileLines"),
           ("MUT_Sections_offset_not_cleared.cfg", "WholeFileLines"),
           ("MUT_Sections_stale_offset.cfg", "WholeFileNoOffset")]


def run(prop, tier, seed, ctx):
    ctx.assumptions += ["code line i is concretised as `print((lambda p_i: undef_i)(1))` (variant A: two TIFA issues + NameError at run time) or "
                        "`print(undef_i` (variant B: syntax error), so every diagnostic names the line it is about",
                        "marker lines: default pattern and (thorough) one custom pattern"]
    ctx.cov["rule"] = ("case = (file as line kinds x trailing newline, mode, API behaviour separate/next*/stop|resolve) "
                       "exported by TLC, replayed with both concretisation variants; non-trivial = file has >= 1 marker; "
                       "distinct = distinct (file, mode, behaviour)")
    cases = []
    for cfg in (["MC_Sections_q.cfg", "MC_Sections_resep_q.cfg", "MC_Sections_many_q.cfg"] if tier == "quick" else ["MC_Sections_t.cfg", "MC_Sections_f.cfg", "MC_Sections_resep_q.cfg", "MC_Sections_resep_t.cfg", "MC_Sections_many_q.cfg"]):
        res = tlc.run("Sections", cfg, workers=8, timeout=900)
        tlc.require_ok(res, cfg)
        ctx.add_tlc(res, "exhaustive " + cfg)
        cases += list(enumerate(res.records))
    # deep random behaviours (tlc -simulate): files of up to nine lines with form-feed lines, up to three walks per
    # report and eight next_section() calls; invariants evaluated by TLC along every behaviour
    num = 40 if tier == "quick" else 1500
    sres = tlc.run("Sections", "SIM_Sections_deep.cfg", workers=4, timeout=900, simulate="num=%d" % num, extra=["-depth", "40", "-seed", str(1000 + seed)])
    tlc.require_ok(sres, "simulation SIM_Sections_deep.cfg")
    ctx.add_tlc(sres, "simulation (%d behaviours) SIM_Sections_deep.cfg" % (4 * num))
    sim = list({json.dumps(r, sort_keys=True): r for r in sres.records}.values())
    if len(sim) < num:
        raise MachineryError("simulation exported only %d behaviours" % len(sim))
    cases += list(enumerate(sim))
    patterns = ["default", "nogroup"] if tier == "quick" else ["default", "custom", "nogroup"]
    mism = shard_map("bind.sections", "replay_chunk", cases, extra={"patterns": patterns})
    ctx.cov["replayed_cases"] += len(cases) * 4 * len(patterns)
    ctx.cov["traces_validated_against_impl"] += len(cases) * 4 * len(patterns)
    ctx.count(len(cases), (json.dumps([r["file"], r["mode"], [h["a"] for h in r["hist"]]]) for _, r in cases if "M" in r["file"]))
    mid = res.records[len(res.records) // 2]
    ctx.sample({"kind": "behaviour", "file": mid["file"], "mode": mid["mode"], "actions": [h["a"] for h in mid["hist"]]})
    ctx.cov["exhaustive"] = True
    for m in mism:
        fields = [f.split(":[")[0] for f in m["fields"]]
        if fields and all(f.endswith("-earlier-section") for f in fields):
            # one defect whatever the action: frames of code compiled from another section get the current offset
            ctx.violation("C17|line:frame-of-another-section", "after step %d (%s, %s mode): a failure inside a function defined by "
                          "another section is reported on %s" % (m["step"], m["action"], m["mode"], m["observed"].get("wrong_lines")), m)
            continue
        ctx.violation("C17|%s|%s|%s" % ("+".join(fields), m["action"], m["mode"]),
                      "after step %d (%s, %s mode, file %s) real state differs from the specification in %s: observed %s expected %s%s" % (
                          m["step"], m["action"], m["mode"], "".join(m["file"]).replace("\n", "/"), m["fields"],
                          json.dumps({k: v for k, v in m["observed"].items() if k in m["fields"] or k == "wrong_lines"}, default=repr)[:300],
                          json.dumps({k: v for k, v in m["expected"].items() if k in m["fields"]}, default=repr)[:200],
                          " error=" + m["error"] if m["error"] else ""), m)
    # ---- verify() inside sections of files with unusual line ends (old-Mac \r inside a section, Windows \r\n, form feeds
    # ...): the syntax feedback's line AND the line of the traceback frame it shows are whole-file lines.  The offers are
    # the ones C12 uses (bind/verify.section_chunk), judged here for C17's two line clauses by TraceVerify.
    from bind.verify import PROLOGUES, SECTION_BODIES
    sect = shard_map("bind.verify", "section_chunk", [(p, b, k) for p in range(len(PROLOGUES)) for b in range(len(SECTION_BODIES)) for k in (1, 2)], chunk=10)
    if len(sect) < 40:
        raise MachineryError("only %d sectioned verify offers were produced" % len(sect))
    acc, rej, tres = tlc.validate_traces("TraceVerify", "TraceVerify.cfg", [[{k: v for k, v in e.items() if k not in ("error", "environment_mismatch", "sectioned")} for e in t["events"]] for t in sect], timeout=600)
    ctx.add_tlc(tres, "line clauses of CallOk on %d verify() calls inside sections" % len(sect))
    ctx.cov["traces_validated_against_impl"] += len(sect)
    for tid, pos, mask in rej:
        t = sect[tid - 1]
        ev = t["events"][pos - 1]
        for bit, name in ((4, "LineIs"), (32, "TracebackLineIs"), (64, "QuotedLineIs")):
            if int(mask) & bit:
                ctx.violation("C17|verify-in-section|%s" % name, "verify() inside a section of %r: the parser says line %s (+ offset %d), the feedback says %s, its traceback frame %s" % (
                    t["texts"][0][:80], ev["line"], ev["offset"], ev["fbline"], ev.get("tbline")), {"texts": t["texts"], "events": t["events"]})
    for mcfg, inv in MUTANTS:
        mres = tlc.run("Sections", mcfg, workers=4, timeout=300)
        if inv not in mres.violated:
            raise MachineryError("mutant %s did not violate %s" % (mcfg, inv))
        ctx.notes.append("self-test: mutant %s violates %s" % (mcfg, inv))


def replay(prop, rep):
    from bind import sections as B
    from engine.core import setup_repo_path
    setup_repo_path()
    r = rep["replay"]
    print(json.dumps(r, indent=1, default=repr)[:3000])
    return 1
