"""C16: result proxy transparency against specs/ProxyOps.tla."""
import json

from engine import tlc
from engine.core import shard_map
from engine.tlc import MachineryError

BITS = {1: "fails-where-real-succeeds", 2: "different-result", 4: "NotImplemented", 8: "writes-stdout", 16: "succeeds-where-real-fails"}


def names(mask):
    return [n for b, n in BITS.items() if int(mask) & b] or ["?"]


def run(prop, tier, seed, ctx):
    ctx.assumptions += ["CPython's own result of the operation on the unwrapped values is the oracle (logged environment)",
                        "proxies are the values returned by real evaluate() on a student module; user objects are "
                        "represented by four shapes (forward-only, reflected-only, declining operators, and a value object with an "
                        "attribute named `value` and the full conversion / container protocol)",
                        "containment is checked with the proxy as the container only (statement wording)"]
    ctx.cov["rule"] = ("cell = operation x placement (left/right/both/unary) x operand class x operand class enumerated by "
                       "TLC, observed on real proxies and validated by TLC against StepOk; chains = random sequences of "
                       "2-3 operations where the result becomes the new proxy; non-trivial = the real operation succeeds; "
                       "distinct = distinct cell / chain")
    res = tlc.run("ProxyOps", "MC_ProxyOps.cfg", workers=8, timeout=600)
    tlc.require_ok(res, "cell enumeration")
    ctx.add_tlc(res, "enumeration of all cells")
    obs = shard_map("bind.proxy", "cells_chunk", list(enumerate(res.records)), chunk=400)
    ctx.cov["replayed_cases"] += len(obs)
    acc, rej, tres = tlc.validate_traces("TraceProxy", "TraceProxy.cfg", [[o["ev"]] for o in obs], timeout=900)
    ctx.add_tlc(tres, "StepOk evaluated on %d observed cells" % len(obs))
    ctx.cov["traces_validated_against_impl"] += len(obs)
    ctx.count(len(obs), (json.dumps(o["cell"], sort_keys=True) for o in obs if o["ev"]["real"] == "ok"))
    ctx.sample({"kind": "cell", "cell": obs[len(obs) // 2]["cell"], "observed": obs[len(obs) // 2]["ev"]})
    ctx.cov["exhaustive"] = True
    for tid, pos, mask in rej:
        o = obs[tid - 1]
        c = o["cell"]
        if "harness" in o["detail"]:
            raise MachineryError("harness failed on %s: %s" % (c, o["detail"]["harness"]))
        for n in names(mask):
            ctx.violation("C16|%s|%s|%s%s" % (c["op"], c["place"], n, "|valobj" if "valobj" in (c["a"], c["b"]) else ""),
                          "%s with proxy %s on (%s, %s): %s  (real: %s %s; proxied: %s %s; stdout %d chars)" % (
                              c["op"], c["place"], c["a"], c["b"], n, o["ev"]["real"], o["detail"].get("real_result"),
                              o["ev"]["prox"], o["detail"].get("prox_result"), o["ev"]["out"]), o)
    n = 2000 if tier == "quick" else 30000
    chains = shard_map("bind.proxy", "chains_chunk", [seed * 7919 + i for i in range(n)], chunk=250)
    acc, rej, tres = tlc.validate_traces("TraceProxy", "TraceProxy.cfg", [c["events"] for c in chains], timeout=1200)
    ctx.add_tlc(tres, "trace validation of %d operation chains" % len(chains))
    ctx.cov["traces_validated_against_impl"] += len(chains)
    ctx.count(len(chains), ("chain:%d" % c["seed"] for c in chains if len(c["events"]) >= 2))
    ctx.sample({"kind": "chain", "start": chains[0]["start"], "steps": chains[0]["steps"], "events": chains[0]["events"]})
    for tid, pos, mask in rej:
        c = chains[tid - 1]
        st = c["steps"][pos - 1]
        for nme in names(mask):
            involved = {c["start"]} | {x[2] for x in c["steps"]}
            ctx.violation("C16|%s|%s|%s%s" % (st[0], st[1], nme, "|valobj" if "valobj" in involved else ""),
                          "chain from %s, step %d %s: %s" % (c["start"], pos, st, nme), c)
    # binding self-test: flipping `equal` must be rejected
    bad = [[dict(o["ev"], equal=False)] for o in obs if o["ev"]["real"] == "ok" and o["ev"]["prox"] == "ok"][:50]
    a2, r2, _ = tlc.validate_traces("TraceProxy", "TraceProxy.cfg", bad, timeout=300)
    if a2 != 0:
        raise MachineryError("binding self-test: %d corrupted observations accepted" % a2)
    ctx.notes.append("self-test: %d corrupted observations rejected" % len(bad))


def replay(prop, rep):
    from bind import proxy as B
    from engine.core import setup_repo_path
    setup_repo_path()
    r = rep["replay"]
    if "cell" in r:
        out = B.cells_chunk([(0, r["cell"])], None)
        print(json.dumps(out, indent=1))
        ev = out[0]["ev"]
        ok = (ev["real"] != "ok" or (ev["prox"] == "ok" and ev["equal"])) and (ev["real"] != "err" or ev["prox"] == "err") and not ev["notimpl"] and ev["out"] == 0
        return 0 if ok else 1
    print(json.dumps(B.chains_chunk([r["seed"]], None), indent=1))
    return 1
