#!/venv/bin/python
"""tlcq.py <Spec> <cfg>... : run TLC on cfgs and print one summary line each (debug helper)."""
import sys; sys.path.insert(0, '/verif')
from engine import tlc
spec = sys.argv[1]
for c in sys.argv[2:]:
    r = tlc.run(spec, c, workers=8, timeout=int(__import__("os").environ.get("TLCQ_TIMEOUT","180")))
    print(c, "ok=%s" % r.ok, "distinct=%d" % r.distinct_states, "exported=%d" % len(r.records), "%.1fs" % r.wall_s, r.violated, [e[:80] for e in r.errors[:2]])
    if not r.ok and not r.violated:
        i = r.stdout.find("rror")
        print(r.stdout[max(0, i - 100):i + 500])
