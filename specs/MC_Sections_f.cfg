SPECIFICATION Spec
CONSTANTS
  MaxLines = 5
  Modes = {"independent", "cumulative"}
  MaxNext = 5
  MaxSep = 1
  MinMarkers = 0
  LineKinds = {"c", "m", "f"}
  Flags = {}
INVARIANT Lossless
INVARIANT KthChunk
INVARIANT PastEndIsFeedback
INVARIANT WholeFileLines
INVARIANT Restored
INVARIANT WholeFileNoOffset
CONSTRAINT Export
CHECK_DEADLOCK FALSE
