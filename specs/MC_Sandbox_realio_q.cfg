SPECIFICATION Spec
CONSTANTS
  EffTokens = {"pa", "w", "wl"}
  MaxEff = 2
  Modes = {"normal", "exc", "consoleFail"}
  FnModes = {"normal", "consoleFail"}
  MaxFns = 1
  Depth = 3
  InputOps = {}
  Entries = {"run", "run_real", "call"}
  TracerStyles = {"none"}
  Threadeds = {FALSE}
  Givens = {}
  Blockeds = {"none"}
  Flags = {}
INVARIANT Restored
INVARIANT Contained
INVARIANT NoSpuriousFb
INVARIANT OutputLedger
INVARIANT InputFifo
CONSTRAINT Export
CHECK_DEADLOCK FALSE
