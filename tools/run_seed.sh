#!/bin/bash
# run_seed.sh <seed-dir-name> [tier] [prop]: apply a seeded change to /repo, run the property's check, undo it.
s=$1; tier=${2:-quick}; d=/verif/seeded/$s
prop=${3:-$(/venv/bin/python -c "import json;print(json.load(open('$d/meta.json'))['property'])")}
cd /repo && git diff --quiet || { echo "/repo dirty"; exit 3; }
git -C /repo apply $d/patch.diff || { echo "patch failed"; exit 3; }
cd /verif && ./check $prop --tier $tier > /verif/build/seed_$s.$prop.log 2>&1; rc=$?
git -C /repo checkout -- .
echo "$s [$prop $tier]: exit=$rc  $(grep -c '^VIOLATION' /verif/build/seed_$s.$prop.log) violation lines; $(grep '^VIOLATION' /verif/build/seed_$s.$prop.log | head -1 | cut -c1-220)"
