SPECIFICATION Spec
CONSTANTS
  Scripts = {"cover", "plain"}
  Subs = {"branch_if", "branch_else"}
  MaxLen = 3
  ClearResets <- CoverageAccumulates
  Writes <- W
  Reads <- R
  SubWrites <- SW
  SubReads <- SR
INVARIANT PristineAtStart
CONSTRAINT Export
CHECK_DEADLOCK FALSE
