SPECIFICATION Spec
CONSTANTS
  Commands = {"gently", "explain", "guidance", "compliment", "set_correct", "give_partial", "feedback", "log", "debug", "system_error"}
  MsgModes = {"message", "template"}
  MaxItems = 3
  Fmts = {"text", "html"}
INVARIANT OneUnlessDebug
CONSTRAINT Export
CHECK_DEADLOCK FALSE
