------------------------------ MODULE Grading ------------------------------
(***************************************************************************)
(* History independence of grading (C13).  The process-wide state that a   *)
(* grading can read is modelled as named slots; an instructor script is a  *)
(* record of the slots it dirties; a grading is                            *)
(*    EnvClear (Environment.__init__ -> Report.clear) ; script effects ;   *)
(*    resolve (which runs resolver hooks).                                 *)
(* ClearResets is the set of slots that Report.clear / the lazy per-report *)
(* tool reset (or per-analysis copies: type_tables) restore in the code    *)
(* (read off report.py, new_types.py,                                      *)
(* environment.py, the tools' reset functions).  A slot outside            *)
(* ClearResets that some script dirties and some script reads is a leak.   *)
(***************************************************************************)
EXTENDS Naturals, Sequences, FiniteSets, TLC, Json
CONSTANTS Scripts, Subs, MaxLen, ClearResets, Writes, Reads, SubWrites, SubReads

Slots == {"feedback", "suppressions", "hiddens", "hooks", "tooldata", "formatter", "overrides", "pools", "question_pools",
          "sandbox_mocks", "tracer", "sections", "builtin_modules", "class_hooks", "type_tables", "real_modules", "fresh_modules", "coverage_data", "vpl_maximum", "student_modules", "gradescope_maximum", "mock_tables"}
\* slots whose persistence is documented (Report.clear: "will not affect class hooks")
Documented == {"class_hooks"}

VARIABLES dirty, hist, leakSeen
vars == <<dirty, hist, leakSeen>>

Init == dirty = {} /\ hist = <<>> /\ leakSeen = {}

Grade(sc, sub) ==
    /\ Len(hist) < MaxLen
    /\ LET afterClear == dirty \ ClearResets IN
       \* the SUBMISSION is analysed and executed too: what it does to process-wide state (attribute assignments that
       \* TIFA records in its type tables, mutation of real modules) counts like the script's own effects
       /\ leakSeen' = leakSeen \cup ((afterClear \cap (Reads[sc] \cup SubReads[sub])) \ Documented)
       /\ dirty' = afterClear \cup Writes[sc] \cup SubWrites[sub]
    /\ hist' = Append(hist, <<sc, sub>>)
Next == \E sc \in Scripts, sub \in Subs : Grade(sc, sub)
Spec == Init /\ [][Next]_vars

\* the part of the state the contract speaks about: with it as TLC's VIEW the history variable no longer distinguishes
\* states, the reachable set is finite and TLC decides the invariant for histories of EVERY length
StateView == <<dirty, leakSeen>>
\* C13: at the start of every grading, every slot that grading reads is pristine
PristineAtStart == leakSeen = {}
Export == hist # <<>> => PrintT(<<"VP", ToJson([hist |-> hist, leaks |-> leakSeen])>>)
=============================================================================
