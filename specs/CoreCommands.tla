---------------------------- MODULE CoreCommands ----------------------------
(***************************************************************************)
(* The core feedback COMMANDS (pedal/core/commands.py) under the contract  *)
(* of C20: one call adds its feedback object(s) exactly once - one object  *)
(* per call, except debug() which documents one per item - to the          *)
(* triggered list (all of these commands fire when called), the truth      *)
(* value of the returned object says so, and the delivered message is the  *)
(* explicit message: the text given (gently / explain / guidance /         *)
(* compliment / set_correct / give_partial with message=), the items       *)
(* joined by the separator (log), the item itself (debug).  A command      *)
(* called with a message TEMPLATE and fields delivers the rendered         *)
(* template.  A table specification (like StaticChecks): every cell is     *)
(* exported with the expected record and replayed on the real command.     *)
(***************************************************************************)
EXTENDS Integers, Sequences, FiniteSets, TLC, Json
CONSTANTS Commands, MsgModes, MaxItems, Fmts
VARIABLES cell, verdict
vars == <<cell, verdict>>
ItemCmds == {"log", "debug"}
Cells == {c \in [cmd : Commands, mode : MsgModes, n : 1..MaxItems, fmt : Fmts] :
            /\ (c.cmd \notin ItemCmds => c.n = 1)
            /\ (c.cmd \in ItemCmds => c.mode = "message")}
\* how many objects the call records, and what each one says ("item:k" = the k-th item, "joined" = all items joined)
Objects(c) == IF c.cmd = "debug" THEN [k \in 1..c.n |-> "item"] ELSE <<(IF c.cmd = "log" THEN "joined" ELSE c.mode)>>
Expect(c) == [count |-> Len(Objects(c)), says |-> Objects(c), list |-> "active", truth |-> TRUE]
Init == cell \in Cells /\ verdict = "pending"
Judge == verdict = "pending" /\ verdict' = "done" /\ UNCHANGED cell
Spec == Init /\ [][Judge]_vars
\* design facts: every call records at least one object, only debug() more than one
OneUnlessDebug == Expect(cell).count >= 1 /\ (cell.cmd # "debug" => Expect(cell).count = 1)
Export == verdict = "done" => PrintT(<<"VP", ToJson([cell |-> cell, exp |-> Expect(cell)])>>)
=============================================================================
