SPECIFICATION Spec
CONSTANTS
  EffTokens = {"pa", "pae", "sp", "in", "pn", "w", "pab", "pcr", "pcrb"}
  MaxEff = 2
  Modes = {"normal", "exc", "closeOut"}
  FnModes = {"normal"}
  MaxFns = 0
  Depth = 3
  InputOps = {"clear_output", "set_input", "clear_input"}
  Entries = {"run"}
  TracerStyles = {"none"}
  Threadeds = {FALSE}
  Givens = {"empty", "one", "blank"}
  Blockeds = {"none"}
  Flags = {}
INVARIANT Restored
INVARIANT Contained
INVARIANT NoSpuriousFb
INVARIANT OutputLedger
INVARIANT InputFifo
CONSTRAINT Export
CHECK_DEADLOCK FALSE
