SPECIFICATION Spec
CONSTANTS
  MaxLines = 4
  Modes = {"independent", "cumulative"}
  MaxNext = 5
  MaxSep = 1
  MinMarkers = 0
  LineKinds = {"c", "m"}
  Flags = {"found_off_by_one"}
INVARIANT Lossless
INVARIANT KthChunk
INVARIANT PastEndIsFeedback
INVARIANT WholeFileLines
INVARIANT Restored
INVARIANT WholeFileNoOffset
CHECK_DEADLOCK FALSE
