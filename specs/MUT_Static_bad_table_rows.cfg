SPECIFICATION Spec
CONSTANTS
  Features <- AllFeatures
  MaxCount = 2
  MaxThr = 2
  Places = {"top", "func", "chain"}
  Flags = {"bad_table_rows"}
INVARIANT ThresholdLaw
CHECK_DEADLOCK FALSE
