SPECIFICATION Spec
CONSTANTS
  Scripts = {"plain_notifa"}
  Subs = {"ok", "modset", "modget"}
  MaxLen = 3
  ClearResets <- CodeClearResets
  Writes <- W
  Reads <- R
  SubWrites <- SW
  SubReads <- SR
INVARIANT PristineAtStart
CONSTRAINT Export
CHECK_DEADLOCK FALSE
