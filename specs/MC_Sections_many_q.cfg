SPECIFICATION Spec
CONSTANTS
  MaxLines = 11
  Modes = {"independent", "cumulative"}
  MaxNext = 12
  MaxSep = 1
  MinMarkers = 9
  LineKinds = {"m", "c"}
  Flags = {}
INVARIANT Lossless
INVARIANT KthChunk
INVARIANT PastEndIsFeedback
INVARIANT WholeFileLines
INVARIANT Restored
INVARIANT WholeFileNoOffset
CONSTRAINT Export
CHECK_DEADLOCK FALSE
