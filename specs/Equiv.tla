-------------------------------- MODULE Equiv --------------------------------
(***************************************************************************)
(* Observational equivalence of sandboxed and plain execution (C06).       *)
(* An abstract program is a short sequence of statements over two          *)
(* variables plus a termination mode, run against an input queue.  Two     *)
(* machines interpret it:                                                  *)
(*   Plain - the program executed as __main__ by an unmodified interpreter *)
(*           whose stdin is a pipe (input() writes the prompt, no newline) *)
(*   Boxed - the program executed by pedal's sandbox (input() is replaced  *)
(*           by a tracker that prints the prompt followed by a newline and *)
(*           returns "0" when the queue is empty, where the plain run      *)
(*           raises EOFError -- so programs never read more than is queued)*)
(* CONTRACT (EquivPlain): after removing prompt echoes the printed text is *)
(* equal, the student-defined globals are equal, and the outcome (normal / *)
(* exception class and line) is equal.                                     *)
(* The second part enumerates argument marshalling cells for call().       *)
(***************************************************************************)
EXTENDS Integers, Sequences, FiniteSets, TLC, Json
CONSTANTS Stmts, Modes, MaxLen, ArgClasses, Fns
Queues == {<<>>, <<"i1">>, <<"i1", "i2">>}

SeqsUpTo(S, n) == UNION {[1..k -> S] : k \in 0..n}
\* values: integers for x, sequences of tokens for text
Exec(prog, q, boxed) ==
    LET RECURSIVE Run(_, _, _, _, _)
        \* i: next statement, x: value of variable x, v: last input value, out: text, queue
        Run(i, x, v, out, queue) ==
            IF i > Len(prog.stmts) THEN [x |-> x, v |-> v, out |-> out, queue |-> queue, line |-> i]
            ELSE LET s == prog.stmts[i] IN
                 CASE s = "px" -> Run(i + 1, x, v, out \o <<"x", ToString(x), "\n">>, queue)         \* print(x)
                   [] s = "pe" -> Run(i + 1, x, v, out \o <<"a">>, queue)                   \* print('a', end='')
                   [] s = "ps" -> Run(i + 1, x, v, out \o <<"a", "-", "b", "\n">>, queue)   \* print('a', 'b', sep='-')
                   [] s = "inc" -> Run(i + 1, x + 1, v, out, queue)                         \* x = x + 1
                   [] s = "dbl" -> Run(i + 1, x * 2, v, out, queue)                         \* x = f(x) with def f(a): return a * 2
                   [] s = "in" -> Run(i + 1, x, Head(queue), out \o (IF boxed THEN <<"p", "\n">> ELSE <<"p">>), Tail(queue))
                   [] s = "pv" -> Run(i + 1, x, v, out \o <<"v", v, "\n">>, queue)          \* print(v)
                   [] OTHER -> Run(i + 1, x, v, out, queue)
    IN Run(1, 0, "none", <<>>, q)
Reads(prog) == Cardinality({i \in 1..Len(prog.stmts) : prog.stmts[i] = "in"})
StripPrompts(out) == SelectSeq(out, LAMBDA t : t # "p")
\* newline tokens that directly follow a prompt belong to the echo; strip them for the boxed machine
RECURSIVE StripEcho(_)
StripEcho(out) == IF out = <<>> THEN <<>>
                  ELSE IF Head(out) = "p" THEN (IF Len(out) >= 2 /\ out[2] = "\n" THEN StripEcho(Tail(Tail(out))) ELSE StripEcho(Tail(out)))
                  ELSE <<Head(out)>> \o StripEcho(Tail(out))
Obs(prog, q, boxed) == LET r == Exec(prog, q, boxed) IN
    [out |-> IF boxed THEN StripEcho(r.out) ELSE StripPrompts(r.out), x |-> r.x, v |-> r.v,
     outcome |-> prog.mode, line |-> Len(prog.stmts) + 1]

VARIABLES prog, queue, phase, cell
vars == <<prog, queue, phase, cell>>
\* call(): the function receives a value equal to the one the instructor passed, however it is marshalled
\* (rendered by repr, bound as a temporary, passed by keyword); the result or exception is that of a direct call
CallCells == [fn : Fns, arg : ArgClasses, style : {"pos", "kwarg"}]
NoCell == [fn |-> "-", arg |-> "-", style |-> "-"]
Programs == [stmts : SeqsUpTo(Stmts, MaxLen), mode : Modes]
Init == \/ /\ prog \in Programs /\ queue \in Queues /\ Reads(prog) <= Len(queue) /\ phase = "new" /\ cell = NoCell
        \/ /\ prog = [stmts |-> <<>>, mode |-> "normal"] /\ queue = <<>> /\ phase = "call" /\ cell \in CallCells
RunBoth == phase \in {"new", "call"} /\ phase' = (IF phase = "new" THEN "done" ELSE "called") /\ UNCHANGED <<prog, queue, cell>>
Spec == Init /\ [][RunBoth]_vars
EquivPlain == Obs(prog, queue, TRUE) = Obs(prog, queue, FALSE)
ExportCall == phase = "called" => PrintT(<<"VP", ToJson([cell |-> cell])>>)
Export == phase = "done" => PrintT(<<"VP", ToJson([prog |-> prog, queue |-> queue, obs |-> Obs(prog, queue, FALSE)])>>)
=============================================================================
