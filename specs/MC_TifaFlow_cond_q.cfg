SPECIFICATION Spec
CONSTANTS
  Vars = {"x", "c"}
  MaxTok = 5
  MaxDepth = 2
  Types = {"i"}
  CondVars = {"c"}
  Copies = TRUE
  Flags = {}
INVARIANT ReadsExact
INVARIANT UnusedExact
CONSTRAINT Export
CHECK_DEADLOCK FALSE
