"""C01 / C02 / C03: Report + resolver against specs/Resolver.tla.

1. TLC model-checks the implementation-shaped resolve (sort + fold) against the declarative contract on
   every report of the cfg's bounded universe and exports every resolved state.
2. spec -> code: every exported report is rebuilt through the real API and resolved by simple.resolve and
   full.resolve; the projection must equal the spec's result.
3. code -> spec: random API histories over the full attribute product are executed on the real code, their
   observed results are validated by TLC against the contract (TraceResolver), clause by clause.
4. binding self-tests (thorough, and a small one in quick): mutant cfgs must violate; corrupted traces must
   be rejected.
"""
import json
import random

from engine import tlc
from engine.core import shard_map
from engine.tlc import MachineryError

BITS = {1: "ShownIsBest", 2: "DefaultIffNone", 4: "CorrectIff", 8: "ScoreIs", 16: "ResolveTotal"}
CLAUSES = {"C01": {"ShownIsBest", "DefaultIffNone", "ResolveTotal", "unmatched-event"},
           "C02": {"CorrectIff"}, "C03": {"ScoreIs"}}
FIELDS = {"C01": {"shown"}, "C02": {"correct"}, "C03": {"score"}}
CFGS = {
    ("C01", "quick"): ["MC_Resolver_rank_q.cfg", "MC_Resolver_supp_q.cfg", "MC_Resolver_alias_q.cfg", "MC_Resolver_twice_q.cfg", "MC_Resolver_catf_q.cfg"],
    ("C01", "thorough"): ["MC_Resolver_rank_t.cfg", "MC_Resolver_rank3_t.cfg", "MC_Resolver_supp_t.cfg", "MC_Resolver_alias_q.cfg", "MC_Resolver_twice_q.cfg", "MC_Resolver_catf_q.cfg"],
    ("C02", "quick"): ["MC_Resolver_correct_q.cfg", "MC_Resolver_supp_q.cfg", "MC_Resolver_else_q.cfg"],
    ("C02", "thorough"): ["MC_Resolver_correct_t.cfg", "MC_Resolver_supp_t.cfg", "MC_Resolver_else_q.cfg"],
    ("C03", "quick"): ["MC_Resolver_score_q.cfg", "MC_Resolver_frac_q.cfg", "MC_Resolver_catf_q.cfg"],
    ("C03", "thorough"): ["MC_Resolver_score_t.cfg", "MC_Resolver_score3_t.cfg", "MC_Resolver_frac_q.cfg", "MC_Resolver_catf_q.cfg"],
}
MUTANTS = {"C01": [("MUT_Resolver_unstable_sort.cfg", "ShownIsBest")],
           "C02": [("MUT_Resolver_correct_or.cfg", "CorrectIff"),
                   ("MUT_Resolver_blank_message_skipped.cfg", "CorrectIff")],
           "C03": [("MUT_Resolver_muted_unscored.cfg", "ScoreIs"), ("MUT_Resolver_round_each.cfg", "ScoreIs")]}


def case_key(prop, m):
    obs = m["observed"]
    if obs.get("error"):
        return "%s|raises|%s" % (prop, obs["error"].split(":")[0])
    return "%s|%s|%s" % (prop, "+".join(sorted(m["fields"])), m["resolver"])


def nontrivial(rec):
    """A case is non-trivial when at least two feedback objects compete or a suppression is present."""
    return len(rec["fbs"]) >= 2 or bool(rec["supp"])


def run(prop, tier, seed, ctx):
    ctx.assumptions += [
        "TLA+ contract in specs/Resolver.tla is the oracle (documented rank order, suppression, score table)",
        "bounded universes per cfg (see tlc_runs); generated inputs use canonical lower-case categories, "
        "documented priority words only, no delayed-condition groups, no suppress('correct')",
        "TLC 1.8 and the JSON export are trusted",
    ]
    ctx.cov["rule"] = ("cases = resolved states exported by TLC (one per report history of the cfg universe) "
                       "plus random API histories validated as traces; non-trivial = >= 2 feedbacks or >= 1 "
                       "suppression; distinct = distinct abstract report")
    # ---------------- 1+2: exhaustive model checking + replay
    for cfg in CFGS[(prop, tier)]:
        res = tlc.run("MC_Resolver", cfg, workers=8, timeout=1500)
        tlc.require_ok(res, cfg)
        ctx.add_tlc(res, "exhaustive " + cfg)
        if not res.records:
            raise MachineryError("no exported cases from " + cfg)
        cases = list(enumerate(res.records))
        mism = shard_map("bind.resolver", "replay_chunk", cases)
        # the sectional resolver with two INTERLEAVED groups: every exported report next to a partner report with the
        # same suppressions, feedback created alternately; each group must resolve like its report on its own
        by_supp = {}
        for i, r in cases:
            by_supp.setdefault(json.dumps(r["supp"], sort_keys=True), []).append(r)
        gcases = []
        for i, r in cases:
            peers = by_supp[json.dumps(r["supp"], sort_keys=True)]
            other = peers[(i * 7 + 3) % len(peers)]
            if len(r["fbs"]) + len(other["fbs"]) >= 3:
                gcases.append((i, r, other))
        mism += shard_map("bind.resolver", "grouped_chunk", gcases)
        ctx.cov["replayed_cases"] += len(cases)
        ctx.count(len(cases), (json.dumps(r, sort_keys=True) for _, r in cases if nontrivial(r)))
        ctx.sample({"kind": "exported case", "cfg": cfg, "case": res.records[len(res.records) // 2]})
        for m in mism:
            mine = [f for f in m["fields"] if f in FIELDS[prop]]
            if prop == "C01" and m["observed"].get("error"):
                mine = ["shown"]
            if not mine:
                continue
            ctx.violation(case_key(prop, m), "resolve() result differs from contract in %s: observed %s expected %s" % (
                mine, {k: m["observed"].get(k) for k in ("shown", "correct", "score", "error")}, m["expected"]), m)
    ctx.cov["exhaustive"] = True
    # ---------------- 3: recorded API histories validated by TLC
    n = 3000 if tier == "quick" else 40000
    seeds = [seed * 1000003 + i for i in range(n)]
    traces = shard_map("bind.resolver", "record_chunk", seeds)
    acc, rej, tres = tlc.validate_traces("TraceResolver", "TraceResolver.cfg", [t["events"] for t in traces],
                                         timeout=1200)
    ctx.add_tlc(tres, "trace validation of %d recorded API histories" % len(traces))
    ctx.cov["traces_validated_against_impl"] += len(traces)
    ctx.count(len(traces), ("trace:%d" % t["seed"] for t in traces if len(t["events"]) > 3))
    ctx.sample({"kind": "recorded history", "events": traces[0]["events"]})
    for tid, pos, mask in rej:
        names = [n for b, n in BITS.items() if int(mask) & b] or ["unmatched-event"]
        mine = [n for n in names if n in CLAUSES[prop]]
        if not mine:
            continue
        clause = "+".join(mine)
        t = traces[tid - 1]
        err = t["errors"][0].split(":")[0] if clause == "ResolveTotal" and t.get("errors") else ""
        ctx.violation("%s|trace|%s%s" % (prop, clause, "|" + err if err else ""),
                      "recorded history rejected at event %d by clause %s" % (pos, clause),
                      {"seed": t["seed"], "events": t["events"], "rejected_at": pos, "clause": clause,
                       "errors": t.get("errors")})
    # ---------------- 3b: the repository's own test-suite, recorded through the guarded hooks
    from engine.suite import record_suite
    st = record_suite()["resolver"]
    if len(st) < 50:
        raise MachineryError("only %d resolver traces recorded from the test-suite" % len(st))
    acc_s, rej_s, sres = tlc.validate_traces("TraceResolver", "TraceResolver.cfg", [t["events"] for t in st], timeout=600)
    ctx.add_tlc(sres, "trace validation of %d reports resolved by the repository's own test-suite" % len(st))
    ctx.cov["traces_validated_against_impl"] += len(st)
    ctx.count(len(st), ("suite:%s:%d" % (t["test"], i) for i, t in enumerate(st) if len(t["events"]) > 2))
    for tid, pos, mask in rej_s:
        names = [n for b, n in BITS.items() if int(mask) & b] or ["unmatched-event"]
        mine = [n for n in names if n in CLAUSES[prop]]
        if mine:
            t = st[tid - 1]
            ctx.violation("%s|suite|%s" % (prop, "+".join(mine)), "report resolved in %s rejected by clause %s" % (t["test"], mine), t)
    # ---------------- 4: binding self-tests
    # (a) a corrupted observation must be rejected
    rng = random.Random(seed)
    corrupted = []
    rejected_ids = {tid for tid, _, _ in rej}
    # corrupt only histories the specification accepted (a wrong observation flipped would become right)
    for t in [t for i, t in enumerate(traces, 1) if i not in rejected_ids][:50]:
        ev = json.loads(json.dumps(t["events"]))
        last = ev[-1]["obs"]
        if prop == "C01":
            last["shown"] = last["shown"] + 1
        elif prop == "C02":
            last["correct"] = not last["correct"]
        else:
            last["score"] = last["score"] + 1
        corrupted.append(ev)
    acc2, rej2, _ = tlc.validate_traces("TraceResolver", "TraceResolver.cfg", corrupted, timeout=300)
    if acc2 != 0:
        raise MachineryError("binding self-test failed: %d corrupted traces were accepted" % acc2)
    ctx.notes.append("self-test: %d corrupted traces all rejected" % len(corrupted))
    # (b) a wrong algorithm must violate the contract in TLC
    for mcfg, inv in MUTANTS[prop]:
        mres = tlc.run("MC_Resolver", mcfg, workers=8, timeout=600)
        if inv not in mres.violated:
            raise MachineryError("mutant %s did not violate %s: %s" % (mcfg, inv, mres.stdout[-1500:]))
        ctx.notes.append("self-test: mutant %s violates %s" % (mcfg, inv))


def replay(prop, rep):
    """Re-execute one replay file; exit 1 if it still violates."""
    from bind import resolver as B
    r = rep["replay"]
    if r.get("resolver") == "sectional-groups":
        out = B.grouped_chunk([(r.get("style", 0), r["case"], r["partner"])], None) + B.grouped_chunk([(r.get("style", 0), r["partner"], r["case"])], None)
        print(json.dumps(out, indent=1, default=repr)[:3000])
        return 1 if out else 0
    if "case" in r:
        out = B.replay_chunk([(r.get("style", 0), r["case"])], None)
        out = [m for m in out if set(m["fields"]) & FIELDS[prop] or m["observed"].get("error")]
        print(json.dumps(out, indent=1, default=repr))
        return 1 if out else 0
    traces = B.record_chunk([r["seed"]], None)
    acc, rej, _ = tlc.validate_traces("TraceResolver", "TraceResolver.cfg", [traces[0]["events"]])
    print(rej)
    return 1 if rej else 0
