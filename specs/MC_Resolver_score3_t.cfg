SPECIFICATION Spec
CONSTANTS
  Cats = {"runtime"}
  Prios = {"none"}
  Trigs = {FALSE, TRUE}
  Muteds = {FALSE}
  Kinds = {"Mistake"}
  Elses = {FALSE}
  Labels = {"a"}
  Flds = {"f1"}
  Corrects = {"F"}
  Valences = {"neg", "pos"}
  Scores = {"none", "+10", "-5", "50%", "0.25"}
  Unscoreds = {FALSE}
  Msgs = {"text"}
  SuppU <- SuppNone
  MaxFb = 3
  MaxSupp = 0
  Variant = "impl"
INVARIANT ShownIsBest
INVARIANT DefaultIffNone
INVARIANT CorrectIff
INVARIANT ScoreIs
INVARIANT NoCorrectWithVisibleNegative
INVARIANT RankAgrees
CONSTRAINT Export
CHECK_DEADLOCK FALSE
