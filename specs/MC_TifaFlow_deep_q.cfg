SPECIFICATION Spec
CONSTANTS
  Vars = {"x"}
  MaxTok = 10
  MaxDepth = 2
  Types = {"i"}
  CondVars = {}
  Copies = FALSE
  Flags = {}
INVARIANT ReadsExact
INVARIANT UnusedExact
CONSTRAINT Export
CHECK_DEADLOCK FALSE
