--------------------------- MODULE MC_TifaRobust ---------------------------
EXTENDS TifaRobust
Stmts == {"assign", "augassign", "exprstmt", "if", "while", "for", "defcall", "return", "print", "multiassign", "with", "try"}
Exprs == {"int", "float", "str", "bool", "none", "list", "dict", "tuple", "set", "binop", "compare", "boolop", "unary",
          "call", "method", "subscript", "slice", "attribute", "listcomp", "dictcomp", "ifexp", "fstring", "lambda", "name", "ellipsis", "bytes", "complex", "tuplerep", "hugerep", "strrep", "lambdaarity",
          "tupleneg", "tuplelast", "tuplefar", "emptyneg", "dictneg", "strneg",
          "litmethod", "lambdacall0", "elemcall", "numcall", "callcall", "startuple", "starsum", "deepnest", "slicestep", "sliceof", "condslice"}
Ctxs == {"module", "function", "loop", "branch", "method"}
Funcs == {"abs", "all", "any", "bool", "chr", "dict", "enumerate", "float", "input", "int", "isinstance", "len", "list",
          "map", "max", "min", "open", "ord", "pow", "print", "range", "repr", "reversed", "round", "set", "sorted", "str",
          "sum", "tuple", "type", "zip", "filter", "divmod", "format", "hash", "hex", "bin", "oct", "iter", "next", "id"}
StrM == {"capitalize", "center", "count", "endswith", "find", "index", "isalnum", "isalpha", "isdigit", "islower", "isspace",
         "istitle", "isupper", "join", "ljust", "lower", "lstrip", "replace", "rfind", "rindex", "rjust", "rsplit", "rstrip",
         "split", "splitlines", "startswith", "strip", "swapcase", "title", "upper", "zfill", "format"}
ListM == {"append", "extend", "insert", "pop", "remove", "sort", "reverse", "index", "count", "copy", "clear"}
DictM == {"copy", "get", "items", "keys", "pop", "values", "update", "setdefault", "clear"}
NumM == {"bit_length", "is_integer", "as_integer_ratio"}
Matrix == [k : {"construct"}, s : Stmts, e : Exprs, c : Ctxs]
Calls == [k : {"builtin"}, s : Funcs, e : {"literal", "variable", "nested", "used"}, c : {"module", "function"}]
\* ... and the builtins that students call with KEYWORD arguments
KwFuncs == {"round", "print", "sorted", "int", "max", "min", "open", "enumerate", "sum"}
KwCalls == [k : {"builtin"}, s : KwFuncs, e : {"kw"}, c : {"module", "function"}]
Methods == [k : {"method"}, s : StrM \cup ListM \cup DictM \cup NumM, e : {"literal", "variable"}, c : {"module", "function"}]
Exotic == [k : {"exotic"}, s : {"match", "async", "walrus", "decorator", "global", "nonlocal", "starassign", "typealias", "classbody",
                                 "generator", "annassign", "delete", "assert", "raise", "trywithfinally", "chained", "nestedfunc",
                                 "lambdadefault", "setcomp", "starargs", "dunder", "slicesassign", "ellipsis", "bytes", "complexnum", "genericann", "ctorcalls"},
           e : {"-"}, c : {"module"}]
AllCells == Matrix \cup Calls \cup KwCalls \cup Methods \cup Exotic
\* cells whose analysis goes through the builtin constructor types (list(), dict(), ... and their subscripted forms)
CtorCells == {c \in Calls : c.s \in {"list", "dict", "set", "tuple", "str", "int", "float", "bool"}}
             \cup {c \in Exotic : c.s \in {"genericann", "ctorcalls", "annassign"}}
OneCell == {[k |-> "builtin", s |-> "sorted", e |-> "literal", c |-> "module"]}
=============================================================================
