SPECIFICATION Spec
CONSTANTS
  Cls = {"P", "C", "T"}
  MsgKinds = {"explicit", "kwtemplate", "class"}
  Outs = {"T", "F", "CR", "MR"}
  DelayCls = {"P"}
  Vals = {"o1", "o2"}
  Depth = 3
  MaxObjs = 3
  Parents = {"none"}
  Fmts = {"F1", "F2"}
  BadOverrides = FALSE
  SecondReport = FALSE
  Variant = "shared_table"
INVARIANT ExactlyOnce
INVARIANT RightList
INVARIANT Truth
INVARIANT ErrorPath
INVARIANT RaisesToCaller
INVARIANT MessageDerivation
INVARIANT OverridesRestored
CHECK_DEADLOCK FALSE
