SPECIFICATION Spec
CONSTANTS
  Scripts = {"plain", "tifa_types"}
  Subs = {"ok", "attrassign", "attrlit", "methodcall"}
  MaxLen = 3
  ClearResets <- SharedTables
  Writes <- W
  Reads <- R
  SubWrites <- SW
  SubReads <- SR
INVARIANT PristineAtStart
CHECK_DEADLOCK FALSE
