SPECIFICATION Spec
CONSTANTS
  Cls = {"P"}
  MsgKinds = {"class"}
  Outs = {"T"}
  DelayCls = {}
  Vals = {"o1", "o2"}
  Depth = 4
  MaxObjs = 1
  Parents = {"none"}
  Fmts = {"F1"}
  BadOverrides = TRUE
  SecondReport = TRUE
  Variant = "impl"
INVARIANT ExactlyOnce
INVARIANT RightList
INVARIANT Truth
INVARIANT ErrorPath
INVARIANT RaisesToCaller
INVARIANT MessageDerivation
INVARIANT OverridesRestored
CONSTRAINT Export
CHECK_DEADLOCK FALSE
