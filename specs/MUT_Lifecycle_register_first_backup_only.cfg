SPECIFICATION Spec
CONSTANTS
  Cls = {"P"}
  MsgKinds = {"class"}
  Outs = {"T"}
  DelayCls = {}
  Vals = {"o1", "o2"}
  Depth = 4
  MaxObjs = 1
  Parents = {"none"}
  Fmts = {"F1"}
  SecondReport = TRUE
  Variant = "register_first_backup_only"
INVARIANT OverridesRestored
CONSTRAINT Export
CHECK_DEADLOCK FALSE
