SPECIFICATION Spec
CONSTANTS
  EffTokens = {"pa", "in"}
  MaxEff = 1
  Modes = {"x:keyBare", "x:key", "x:zero", "x:name", "x:type", "x:index", "x:attr", "x:assert", "x:stopiter", "x:bareexc", "x:args2", "x:custominit", "x:oserror", "reraise", "nested", "normal", "exc", "excBrokenStr", "excBrokenRepr", "exit", "sysexit", "raiseSysExit", "recursion", "syntax", "nul", "blockedEval", "blockedOpenW", "importPedal", "baseKbd", "baseGen", "baseCustom", "internalFault"}
  FnModes = {"x:keyBare", "x:custominit", "reraise", "nested", "normal", "exc", "excBrokenStr", "sysexit", "raiseSysExit", "recursion", "blockedEval", "baseKbd", "baseCustom", "internalFault"}
  MaxFns = 1
  Depth = 3
  InputOps = {}
  Entries = {"run", "call", "evaluate"}
  TracerStyles = {"none"}
  Threadeds = {FALSE, TRUE}
  Givens = {}
  Blockeds = {"none"}
  Flags = {}
INVARIANT Restored
INVARIANT Contained
INVARIANT NoSpuriousFb
INVARIANT OutputLedger
INVARIANT InputFifo
CONSTRAINT Export
CHECK_DEADLOCK FALSE
