"""pytest plugin that records traces while the repository's own test-suite runs with the guard on.

Loaded with `-p bind.suite_plugin` (PYTHONPATH=/verif); installs a sink in pedal.utilities.verif_hooks and
writes the recorded traces to $VERIF_SUITE_TRACES at session end."""
import json
import os
import re

TRACES = {"resolver": [], "ledger": []}
_ledger = {}
SCORE_RE = re.compile(r"^([+-])?(\d+(?:\.\d+)?)(%)?$")
DOCUMENTED_PRIOS = {"none", "high", "medium", "low", "highest", "lowest", "syntax", "mistakes", "instructor", "algorithmic",
                    "runtime", "student", "specification", "positive", "instructions", "uncategorized", "parser", "verifier",
                    "analyzer"}


def centi(score):
    if isinstance(score, bool):
        return None
    if isinstance(score, (int, float)):
        c = score * 100
        return int(round(c)) if abs(c - round(c)) < 1e-9 else None
    if isinstance(score, str):
        m = SCORE_RE.match(score.strip())
        if not m:
            return None
        v = float(m.group(2))
        c = v if m.group(3) else v * 100
        if abs(c - round(c)) > 1e-9:
            return None
        return int(round(c)) * (-1 if m.group(1) == "-" else 1)
    return None


def kv_of(fields):
    out = []
    for k, v in (fields or {}).items():
        try:
            out.append([str(k), repr(v)[:60]])
        except Exception:
            out.append([str(k), "<unrepr>"])
    return out


def project_feedback(fb):
    cat = fb.category.lower() if isinstance(fb.category, str) else "none"
    prio = fb.priority.lower() if isinstance(fb.priority, str) else "none"
    if prio not in DOCUMENTED_PRIOS:
        return None
    rec = {"cat": cat, "prio": prio, "trig": bool(fb), "muted": bool(fb.muted), "kind": "Compliment" if fb.kind == "Compliment" else "Other",
           "els": bool(not fb and fb.else_message), "label": str(fb.label), "llabel": str(fb.label).lower(), "flds": "-",
           "kv": kv_of(fb.fields if isinstance(fb.fields, dict) else {}),
           "correct": "T" if fb.correct is True else ("F" if fb.correct is False else ("N" if fb.correct is None else ("T" if fb.correct else "F"))),
           "valence": {-1: "neg", 0: "zero", 1: "pos"}.get(fb.valence, "none"), "unscored": bool(fb.unscored), "score": "none"}
    if fb.score is not None:
        c = centi(fb.score)
        if c is None or abs(c) > 10 ** 7:
            return None
        rec["score"] = "raw"
        rec["centi"] = c
    return rec


def on_resolve(fields):
    report, final = fields["report"], fields["final"]
    if "correct" in report.suppressions or "success" in report.suppressions or report.hiddens:
        return
    fbs = list(report.feedback) + list(report.ignored_feedback)
    if len(fbs) > 40:
        return
    recs = []
    for fb in fbs:
        r = project_feedback(fb)
        if r is None or getattr(fb, "_status", "") == "delayed":
            return
        recs.append(r)
    supp = []
    for cat, labels in report.suppressions.items():
        for label, lst in labels.items():
            for flds in lst:
                if label is True:
                    supp.append({"k": "cat", "cat": cat, "label": "-", "fld": "-", "kv": []})
                elif not flds:
                    supp.append({"k": "catlabel", "cat": cat, "label": str(label), "fld": "-", "kv": []})
                else:
                    supp.append({"k": "catlabelf", "cat": cat, "label": str(label), "fld": "-", "kv": kv_of(flds)})
    for label, lst in report.suppressed_labels.items():
        for flds in lst:
            if label is True:
                return
            supp.append({"k": "labelf" if flds else "label", "cat": "-", "label": str(label), "fld": "-", "kv": kv_of(flds)})
    shown = -2
    if final.label == "set_correct_no_errors" and final.title in ("Complete", "No Errors"):
        shown = 0
    else:
        for i, fb in enumerate(fbs, 1):
            if final.message == fb.message and final.label == fb.label and final.title == (fb.title or fb.label):
                shown = i
                break
    try:
        score = int(round(final.score * 100))
    except Exception:
        return
    ev = [{"e": "supp", "s": s} for s in supp] + [{"e": "add", "f": r} for r in recs]
    ev.append({"e": "resolve", "obs": {"shown": shown, "correct": bool(final.correct), "score": score}})
    TRACES["resolver"].append({"test": os.environ.get("PYTEST_CURRENT_TEST", "?").split(" ")[0], "events": ev})


_counter = [0]


def sandbox_key(sb):
    """id() values are reused after garbage collection: tag each sandbox object once."""
    k = getattr(sb, "_verif_key", None)
    if k is None:
        _counter[0] += 1
        k = _counter[0]
        try:
            sb._verif_key = k
        except Exception:
            pass
    return k


def on_execute(fields):
    sb, ctx_ = fields["sandbox"], fields["context"]
    key = sandbox_key(sb)
    st = _ledger.setdefault(key, {"events": [], "raw": None})
    share = ctx_.output if isinstance(ctx_.output, str) else ""
    if len(sb.raw_output) > 1500 or len(st["events"]) > 30:
        st["dead"] = True
        return
    import sys
    st["events"].append({"e": "exec", "share": list(share), "raw": list(sb.raw_output), "lines": [list(x) for x in sb.output],
                         "patches": len(sb._current_patches), "stdouts": len(sb._current_stdout),
                         "test": os.environ.get("PYTEST_CURRENT_TEST", "?").split(" ")[0]})


def sink(event, fields):
    try:
        if event == "resolve":
            on_resolve(fields)
        elif event == "execute":
            on_execute(fields)
        elif event == "clear_output":
            st = _ledger.setdefault(sandbox_key(fields["sandbox"]), {"events": [], "raw": None})
            st["events"].append({"e": "clear"})
    except Exception as e:      # the recorder must never disturb the test-suite
        TRACES.setdefault("errors", []).append("%s: %s" % (type(e).__name__, e))


def pytest_sessionstart(session):
    from pedal.utilities import verif_hooks
    verif_hooks.install(sink=sink)


def pytest_sessionfinish(session, exitstatus):
    out = os.environ.get("VERIF_SUITE_TRACES")
    if out:
        TRACES["ledger"] = [{"events": v["events"]} for v in _ledger.values() if v["events"] and not v.get("dead")]
        json.dump(TRACES, open(out, "w"))
