SPECIFICATION Spec
CONSTANTS
  MaxLines = 9
  Modes = {"independent", "cumulative"}
  MaxNext = 8
  MaxSep = 3
  MinMarkers = 1
  LineKinds = {"c", "m", "f"}
  Flags = {}
INVARIANT Lossless
INVARIANT KthChunk
INVARIANT PastEndIsFeedback
INVARIANT WholeFileLines
INVARIANT Restored
INVARIANT WholeFileNoOffset
CONSTRAINT Export
CHECK_DEADLOCK FALSE
