SPECIFICATION Spec
CONSTANTS
  Cats = {"runtime", "instructor"}
  Prios = {"none"}
  Trigs = {FALSE, TRUE}
  Muteds = {FALSE, TRUE}
  Kinds = {"Mistake"}
  Elses = {FALSE}
  Labels = {"a"}
  Flds = {"f1"}
  Corrects = {"F"}
  Valences = {"neg", "pos", "zero"}
  Scores = {"none", "+10", "-5", "50%", "0.25"}
  Unscoreds = {FALSE, TRUE}
  Msgs = {"text"}
  SuppU <- SuppScore
  MaxFb = 2
  MaxSupp = 1
  Variant = "impl"
INVARIANT ShownIsBest
INVARIANT DefaultIffNone
INVARIANT CorrectIff
INVARIANT ScoreIs
INVARIANT NoCorrectWithVisibleNegative
INVARIANT RankAgrees
CONSTRAINT Export
CHECK_DEADLOCK FALSE
