#!/bin/bash
# Re-confirm every kept seeded change against /repo's current HEAD in a scratch worktree (removed afterwards).
WT=/tmp/wt/reverify.$$
git -C /repo worktree add -q --detach $WT HEAD || exit 3
base=$(cd $WT && /venv/bin/python -m pytest -q -p no:cacheprovider 2>&1 | grep '^FAILED' | sed 's/ - .*//' | sort | md5sum | cut -c1-8)
for d in ${@:-/verif/seeded/*/}; do d=${d%/}
  s=$(basename $d)
  sed "s#/repo#$WT#g" $d/demo.py > $WT/_demo.py
  (cd $WT && /venv/bin/python _demo.py >/dev/null 2>&1); d0=$?
  if ! git -C $WT apply $d/patch.diff 2>/dev/null; then echo "$s: PATCH DOES NOT APPLY"; continue; fi
  (cd $WT && /venv/bin/python _demo.py >/dev/null 2>&1); d1=$?
  t=$(cd $WT && /venv/bin/python -m pytest -q -p no:cacheprovider 2>&1 | tee /tmp/wt/rv.$$.log | tail -1 | sed 's/,.*skipped.*//')
  f=$(grep '^FAILED' /tmp/wt/rv.$$.log | sed 's/ - .*//' | sort | md5sum | cut -c1-8)
  git -C $WT checkout -q -- pedal
  ok="OK"; [ "$d0" = 0 ] && [ "$d1" = 1 ] && [ "$f" = "$base" ] || ok="STALE"
  echo "$s: $ok demo_clean=$d0 demo_patched=$d1 tests=[$t] failset_same=$([ $f = $base ] && echo yes || echo NO)"
done
rm -f /tmp/wt/rv.$$.log
git -C /repo worktree remove --force $WT
