SPECIFICATION Spec
CONSTANTS
  Classes = {"ok", "blank", "syntax", "indent", "tab", "nul", "syntax_noline", "unencodable", "resource"}
  MaxCalls = 2
  Offsets = {0, 3}
INVARIANT TreeIsCurrent
CONSTRAINT Export
CHECK_DEADLOCK FALSE
