#!/venv/bin/python
"""Regenerate MANIFEST.json from the table below (keeps it valid at all times)."""
import json, os
ROOT = os.path.dirname(os.path.abspath(__file__))
props = [json.loads(l) for l in open(os.path.join(ROOT, "properties.jsonl"))]
CLAIMED = json.load(open(os.path.join(ROOT, "manifest_claims.json")))
PENDING = "machinery for this property is not built yet in this revision (planned in DESIGN.md section 6); it will move to checks when its TLA+ specification and binding are committed"
man = {
 "version": 1,
 "setup_cmd": "cd /verif && ./setup.sh",
 "hooks": {"guard": "PEDAL_EDU_PEDAL_VERIF", "enable": "checks set PEDAL_EDU_PEDAL_VERIF=1 in their own process environment and import pedal from /repo's working tree (pure Python, no build step)",
           "baseline_off_cmd": "cd /repo && env -u PEDAL_EDU_PEDAL_VERIF /venv/bin/python -m pytest -ra -q -p no:cacheprovider --timeout=900 --continue-on-collection-errors",
           "source_commits": [], "add_only": True},
 "engines": [{"name": "lifecycle", "path": "specs/Lifecycle.tla + checks/lifecycle.py + bind/lifecycle.py", "serves_properties": ["C20"], "kind_free_text": "TLA+ spec checked by TLC; behaviour export replay"},
             {"name": "sandbox", "path": "specs/Sandbox.tla + checks/sandbox.py + bind/sandbox.py", "serves_properties": ["C04", "C05", "C15"], "kind_free_text": "TLA+ spec checked by TLC; behaviour export replay"},
             {"name": "resolver", "path": "specs/Resolver.tla + checks/resolver.py + bind/resolver.py", "serves_properties": ["C01", "C02", "C03"],
              "kind_free_text": "TLA+ spec checked by TLC; export replay and batch trace validation"}],
 "checks": [], "not_applicable": [],
 "notes": "All checks: ./check <id> --tier quick|thorough ; replay: ./check <id> --replay <file>. Exit 2 = machinery error.",
}
extra = os.path.join(ROOT, "manifest_extra.json")
if os.path.exists(extra):
    ex = json.load(open(extra))
    CLAIMED.update(ex.get("claimed", {}))
    man["engines"] += ex.get("engines", [])
    man["hooks"]["source_commits"] = ex.get("hook_commits", [])
    NA = ex.get("not_applicable", {})
else:
    NA = {}
for p in props:
    i = p["id"]
    if i in CLAIMED:
        c = CLAIMED[i]
        man["checks"].append({
            "property_id": i, "quick_cmd": "./check %s --tier quick" % i, "thorough_cmd": "./check %s --tier thorough" % i,
            "evidence_file": "/verif/evidence/%s.json" % i, "replay_cmd_template": "./check %s --replay {path}" % i,
            "engine": c["engine"], "level_claimed": {"category": c.get("category", "model_checking"), "text": c["text"], "design_ref": "DESIGN.md section " + c["ref"]},
            "level_note": c["note"], "technique": c["technique"]})
    else:
        man["not_applicable"].append({"property_id": i, "reason": NA.get(i, PENDING)})
json.dump(man, open(os.path.join(ROOT, "MANIFEST.json"), "w"), indent=1)
import jsonschema
jsonschema.validate(man, json.load(open("/root/.vp/MANIFEST.schema.json")))
print("MANIFEST ok:", len(man["checks"]), "checks,", len(man["not_applicable"]), "not claimed")
