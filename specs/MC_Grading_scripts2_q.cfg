SPECIFICATION Spec
CONSTANTS
  Scripts = {"raiser_a", "raiser_b", "plain", "qpool"}
  Subs = {"uselen", "ok"}
  MaxLen = 2
  ClearResets <- CodeClearResets
  Writes <- W
  Reads <- R
  SubWrites <- SW
  SubReads <- SR
INVARIANT PristineAtStart
CONSTRAINT Export
CHECK_DEADLOCK FALSE
