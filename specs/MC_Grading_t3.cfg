SPECIFICATION Spec
CONSTANTS
  Scripts <- QuickScripts
  Subs = {"ok", "crash"}
  MaxLen = 3
  ClearResets <- CodeClearResets
  Writes <- W
  Reads <- R
  SubWrites <- SW
  SubReads <- SR
INVARIANT PristineAtStart
CONSTRAINT Export
CHECK_DEADLOCK FALSE
