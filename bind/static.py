"""Binding of specs/StaticChecks.tla (C08): concretise (feature, count, placement) into programs, ask CPython's own
ast.walk for the oracle count/lines (logged environment), run pedal's ensure_/prevent_/find_ functions."""
import ast
import glob
import os

OPCLASS = {"==": ast.Eq, "<": ast.Lt, "<=": ast.LtE, ">=": ast.GtE, ">": ast.Gt, "!=": ast.NotEq, "is": ast.Is,
           "is not": ast.IsNot, "in": ast.In, "not in": ast.NotIn, "and": ast.And, "or": ast.Or, "+": ast.Add,
           "-": ast.Sub, "*": ast.Mult, "/": ast.Div, "//": ast.FloorDiv, "%": ast.Mod, "**": ast.Pow,
           ">>": ast.RShift, "<<": ast.LShift, "|": ast.BitOr, "^": ast.BitXor, "&": ast.BitAnd, "@": ast.MatMult,
           "not": ast.Not, "~": ast.Invert}
DISTRACT = {"+": "a - b", "-": "a + b", "*": "a ** b", "/": "a // b", "//": "a / b", "%": "a * b", "**": "a * b",
            ">>": "a << b", "<<": "a >> b", "|": "a & b", "^": "a | b", "&": "a ^ b", "@": "a * b",
            "==": "a != b", "<": "a <= b", "<=": "a < b", ">=": "a > b", ">": "a >= b", "!=": "a == b",
            "is": "a is not b", "is not": "a is b", "in": "a not in b", "not in": "a in b",
            "and": "a or b", "or": "a and b", "not": "~a", "~": "not a"}
LITERALS = {"5": 5, "1": 1, "0": 0, "2.5": 2.5, "1.0": 1.0, "'hi'": "hi", "True": True, "False": False}
LIT_DISTRACT = {"5": "50", "1": "True", "0": "False", "2.5": "25", "1.0": "1", "'hi'": "'hi there'", "True": "1", "False": "0"}
SPELLINGS = {"'hi'": ["'hi'", "u'hi'", '"hi"', "'h' 'i'", "'''hi'''"], "5": ["5", "0x5", "0b101", "0o5"],
             "2.5": ["2.5", "25e-1", "2.50"], "1.0": ["1.0", "1e0", "1."], "1": ["1", "0x1", "0o1"], "0": ["0", "0x0", "00"]}
TYPES = {"int": int, "float": float, "str": str, "bool": bool, "list": list, "dict": dict}
TYPE_EXPR = {"int": "7", "float": "7.5", "str": "'s'", "bool": "True", "list": "[a]", "dict": "{a: b}"}
TYPE_DISTRACT = {"int": "True", "float": "7", "str": "7", "bool": "1", "list": "(a, b)", "dict": "{a, b}"}
AST_STMT = {"For": "for i in xs:\n    pass", "While": "while a:\n    break", "If": "if a:\n    pass",
            "Return": None, "FunctionDef": "def g%d():\n    pass"}
AST_EXPR = {"ListComp": "[i for i in xs]", "Lambda": "(lambda z: z)",
            # operator CLASSES as node kinds: CPython's parser shares ONE node object per operator class, a plain walk
            # meets it once per occurrence
            "Add": "a + b", "Lt": "a < b", "And": "a and b", "USub": "-a"}
OPERATOR_KINDS = {"Add", "Lt", "And", "USub"}


def occurrence(feature, k):
    """-> ('expr', text) or ('stmt', text) for the k-th occurrence of the feature."""
    kind, _, name = feature.partition(":")
    if kind == "op":
        if name in ("not", "~"):
            return "expr", "%s a" % name if name == "not" else "~a"
        return "expr", "a %s b" % name
    if kind == "call":
        return "expr", "%s(a)" % name
    if kind == "method":
        return "expr", "xs.%s(a)" % name
    if kind == "lit":
        # the same VALUE in the spellings Python's grammar offers (the syntax tree holds the value, whatever the spelling)
        spell = SPELLINGS.get(name, [name])
        return "expr", spell[k % len(spell)]
    if kind == "type":
        return "expr", TYPE_EXPR[name]
    if kind == "ast":
        if name in AST_EXPR:
            return "expr", AST_EXPR[name]
        if name == "Return":
            return "stmt", "def h%d():\n    return a" % k
        t = AST_STMT[name]
        return "stmt", (t % k) if "%d" in t else t
    if kind == "import":
        return "stmt", "import %s" % name
    if kind == "importfrom":
        return "stmt", "from %s import pi" % name
    raise ValueError(feature)


def distractor(feature):
    kind, _, name = feature.partition(":")
    if kind == "op":
        return ["r9 = " + DISTRACT[name], "a += b", "a -= b", "a *= b"]
    if kind == "call":
        return ["r6 = handlers[0](a)", "r5 = make()(a)", "r9 = %s_other(a)" % name, "r8 = obj.other()", "r7 = %s" % name]
    if kind == "method":
        return ["r6 = handlers[0](a)", "r9 = xs.%s_more(a)" % name, "r8 = %sx(a)" % name]
    if kind == "lit":
        return ["r9 = " + LIT_DISTRACT[name], "r8 = None"]
    if kind == "type":
        return ["r9 = " + TYPE_DISTRACT[name], "r8 = None"]
    if kind == "ast":
        return ["r9 = a if b else xs"]
    return ["import os"]


def indent(text, n):
    return "\n".join(" " * n + line for line in text.split("\n"))


def concretise(q):
    """Program with exactly q['count'] occurrences of the feature in the requested placement, plus distractors."""
    f, c, place = q["f"], q["count"], q["place"]
    if (f, place) in (("ast:FunctionDef", "func"), ("ast:If", "else")):
        place = "top"        # the wrapper itself would be an occurrence
    body = []
    for k in range(c):
        kind, text = occurrence(f, k)
        if kind == "expr":
            if place == "chain" and f.startswith("op:") and f[3:] in ("==", "<", "<=", ">=", ">", "!=", "is", "is not", "in", "not in"):
                other = DISTRACT[f[3:]].split(" ", 1)[1].rsplit(" ", 1)[0]
                body.append("r%d = a %s b %s xs" % (k, other, f[3:]))     # the operator is the SECOND of a chain
            elif place == "kwarg":
                body.append("r%d = consume(k=%s)" % (k, text))
            elif place == "comp" and not f.startswith("ast:"):
                body.append("r%d = [%s for j in xs]" % (k, text))
            else:
                body.append("r%d = %s" % (k, text))
        else:
            body.append(text)
    body += distractor(f)
    is_import = f.startswith("import")
    if place in ("func",) and not is_import:
        src = "def outer():\n" + indent("\n".join(body), 4) + "\n"
    elif place == "else" and not is_import:
        src = "if a:\n    pass\nelse:\n" + indent("\n".join(body), 4) + "\n"
    else:
        src = "\n".join(body) + "\n"
    return "a = input()\nb = input()\nxs = input()\n" + src


def oracle(tree, feature):
    """Occurrences per the property: nodes a plain walk of CPython's tree finds. -> sorted list of line numbers."""
    kind, _, name = feature.partition(":")
    lines = []
    for node in ast.walk(tree):
        if kind == "op":
            cls = OPCLASS[name]
            if isinstance(node, ast.BinOp) and isinstance(node.op, cls):
                lines.append(node.lineno)
            elif isinstance(node, ast.BoolOp) and isinstance(node.op, cls):
                lines.append(node.lineno)
            elif isinstance(node, ast.UnaryOp) and isinstance(node.op, cls):
                lines.append(node.lineno)
            elif isinstance(node, ast.Compare):
                lines += [node.lineno for op in node.ops if isinstance(op, cls)]
        elif kind in ("call", "method"):
            if isinstance(node, ast.Call):
                fn = node.func
                if isinstance(fn, ast.Name) and fn.id == name or isinstance(fn, ast.Attribute) and fn.attr == name:
                    lines.append(node.lineno)
        elif kind == "lit":
            v = LITERALS[name]
            if isinstance(node, ast.Constant) and type(node.value) is type(v) and node.value == v:
                lines.append(node.lineno)
        elif kind == "type":
            t = TYPES[name]
            if t in (list, dict):
                if isinstance(node, ast.List if t is list else ast.Dict):
                    lines.append(node.lineno)
            elif isinstance(node, ast.Constant) and type(node.value) is t:
                lines.append(node.lineno)
        elif kind == "ast" and name in OPERATOR_KINDS:
            # operator nodes carry no position: the occurrence is counted where its expression stands
            if isinstance(node, (ast.BinOp, ast.UnaryOp, ast.BoolOp)) and type(node.op).__name__ == name:
                lines.append(node.lineno)
            elif isinstance(node, ast.Compare):
                lines += [node.lineno for op in node.ops if type(op).__name__ == name]
        elif kind == "ast":
            if type(node).__name__ == name:
                lines.append(node.lineno)
        elif kind == "import":
            if isinstance(node, ast.Import) and any(a.name == name for a in node.names):
                lines.append(node.lineno)
        elif kind == "importfrom":
            if isinstance(node, ast.ImportFrom) and node.module == name:
                lines.append(node.lineno)
    return sorted(lines)


def pedal_find(feature, R):
    from pedal.cait.find_node import find_operation, find_function_calls
    from pedal.cait.cait_api import parse_program
    kind, _, name = feature.partition(":")
    if kind == "op":
        return len(find_operation(name, report=R))
    if kind in ("call", "method"):
        return len(find_function_calls(name, report=R))
    if kind == "ast":
        from pedal.cait.cait_api import find_asts
        n = len(parse_program(report=R).find_all(name))
        m = len(find_asts(name, report=R))
        return n if n == m else -1000 - m          # the two documented routes must agree
    return None


def pedal_query(feature, pol, thr, R):
    import pedal.assertions.static as S
    kind, _, name = feature.partition(":")
    kw = {"at_least": thr} if pol == "ensure" else {"at_most": thr}
    kw["report"] = R
    if kind == "op":
        fb = getattr(S, pol + "_operation")(name, **kw)
    elif kind in ("call", "method"):
        fb = getattr(S, pol + "_function_call")(name, **kw)
    elif kind == "lit":
        fb = getattr(S, pol + "_literal")(LITERALS[name], **kw)
    elif kind == "type":
        fb = getattr(S, pol + "_literal_type")(TYPES[name], **kw)
    elif kind == "ast":
        fb = getattr(S, pol + "_ast")(name, **kw)
    else:
        fb = getattr(S, pol + "_import")(name, report=R)
    line = fb.location.line if getattr(fb, "location", None) is not None else 0
    return bool(fb), line or 0


def observe(src, feature, queries, decoy=None):
    """-> (oracle lines, found or None, [(pol, thr, fired, line)])
    decoy: the program is put on a Report object of its own while the GLOBAL report holds `decoy` (another program)."""
    from pedal.core.report import MAIN_REPORT, Report
    from pedal.core.commands import clear_report, contextualize_report
    clear_report()
    if decoy is None:
        R = MAIN_REPORT
        contextualize_report(src)
    else:
        contextualize_report(decoy)
        R = Report()
        contextualize_report(src, report=R)
    tree = ast.parse(src)
    lines = oracle(tree, feature)
    found = pedal_find(feature, R)
    res = []
    for pol, thr in queries:
        fired, line = pedal_query(feature, pol, thr, R)
        res.append((pol, thr, fired, line))
    return lines, found, res


def replay_chunk(cases, extra):
    from engine.core import setup_repo_path
    setup_repo_path()
    out = []
    for idx, rec in cases:
        q = rec["q"]
        if q["f"].startswith("import") and (q["thr"] != (1 if q["pol"] == "ensure" else 0) or q["count"] > 1):
            continue      # import checks are documented to ignore thresholds: default thresholds only
        src = concretise(q)
        try:
            lines, found, res = observe(src, q["f"], [(q["pol"], q["thr"])])
        except Exception as e:
            out.append({"q": q, "source": src, "kind": "raised", "detail": "%s: %s" % (type(e).__name__, e)})
            continue
        if len(lines) != q["count"]:
            out.append({"q": q, "source": src, "kind": "environment", "detail": "oracle count %d != specified %d" % (len(lines), q["count"])})
            continue
        pol, thr, fired, line = res[0]
        want = rec["fires"] == "yes"
        if fired != want:
            out.append({"q": q, "source": src, "kind": "fires", "observed": fired, "expected": want, "oracle_lines": lines})
        elif found is not None and found != q["count"]:
            out.append({"q": q, "source": src, "kind": "found", "observed": found, "expected": q["count"], "oracle_lines": lines})
        elif fired and pol == "prevent" and line and line not in lines:
            out.append({"q": q, "source": src, "kind": "line", "observed": line, "expected": lines, "oracle_lines": lines})
        if q["count"] == 0 and not q["f"].startswith("import"):
            # the same question about a submission with NO statement at all, held by a Report object of its own, while the
            # global report holds a program full of occurrences: the answer is about the submission asked about
            bare = "# nothing written yet\n"
            decoy = concretise(dict(q, count=3))
            try:
                lines2, found2, res2 = observe(bare, q["f"], [(q["pol"], q["thr"])], decoy=decoy)
            except Exception as e:
                out.append({"q": q, "source": bare, "kind": "raised", "detail": "(own report) %s: %s" % (type(e).__name__, e)})
                continue
            fired2 = res2[0][2]
            want2 = (q["pol"] == "ensure" and q["thr"] > 0) or (q["pol"] == "prevent" and q["thr"] < 0)
            if fired2 != want2 or (found2 is not None and found2 != 0):
                out.append({"q": q, "source": bare, "kind": "fires" if fired2 != want2 else "found", "observed": fired2 if fired2 != want2 else found2,
                            "expected": want2 if fired2 != want2 else 0, "oracle_lines": [], "own_report": True, "decoy": decoy})
    return out


# ------------------------------------------------------------------ corpus traces
def corpus_files():
    repo = os.environ.get("VERIF_REPO", "/repo")
    files = []
    for pat in ("pedal/**/*.py", "tests/**/*.py", "examples/**/*.py"):
        files += glob.glob(os.path.join(repo, pat), recursive=True)
    return sorted(files)


CORPUS_FEATURES = ["op:" + s for s in OPCLASS] + ["call:print", "call:len", "call:range", "method:append", "method:format",
                                                   "lit:1", "lit:0", "lit:True", "lit:1.0", "type:int", "type:str", "type:bool",
                                                   "type:float", "type:list", "type:dict", "ast:For", "ast:If", "ast:Return",
                                                   "ast:ListComp"]


def record_chunk(files, extra):
    from engine.core import setup_repo_path
    setup_repo_path()
    traces = []
    for path in files:
        try:
            src = open(path, encoding="utf-8").read()
            ast.parse(src)
        except Exception:
            continue
        if len(src) > 40000:
            continue
        for feature in CORPUS_FEATURES:
            try:
                lines, found, res = observe(src, feature, [("ensure", 1), ("prevent", 0), ("ensure", 3), ("prevent", 2)])
            except Exception as e:
                traces.append({"file": path, "feature": feature, "events": [{"e": "find", "count": 0, "found": -1}],
                               "error": "%s: %s" % (type(e).__name__, e)})
                continue
            ev = []
            if found is not None:
                ev.append({"e": "find", "count": len(lines), "found": found})
            for pol, thr, fired, line in res:
                ev.append({"e": "query", "pol": pol, "thr": thr, "count": len(lines), "fired": fired, "line": line,
                           "lines": sorted(set(lines))})
            traces.append({"file": path, "feature": feature, "events": ev})
    return traces


# ------------------------------------------------------------------ sessions: several queries on ONE parsed root
def session_program(prog):
    body = []
    k = 0
    for f in sorted(prog):
        if f in ("foreign", "verifyOther"):
            continue
        for _ in range(prog[f]):
            kind, text = occurrence(f, k)
            body.append("r%d = %s" % (k, text) if kind == "expr" else text)
            k += 1
    return "a = input()\nb = input()\nxs = input()\n" + "\n".join(body) + "\n"


def pin_count(feature, R):
    """The count pedal's ensure_/prevent_ pair implies for the feature on the current report (None if inconsistent)."""
    lo = None
    for n in range(0, 6):
        e_fires, _ = pedal_query(feature, "ensure", n + 1, R)      # fires iff count < n+1
        p_fires, _ = pedal_query(feature, "prevent", n, R)         # fires iff count > n
        if e_fires is False and p_fires is False:
            return None                                            # count >= n+1 and count <= n
        if e_fires and not p_fires:                                # count <= n, first such n
            lo = n
            break
    return lo


def session_replay_chunk(cases, extra):
    """cases: exported [prog, hist] of specs/StaticSession.tla; every step is asked on the same report."""
    from engine.core import setup_repo_path
    setup_repo_path()
    from pedal.core.report import MAIN_REPORT as R
    from pedal.core.commands import clear_report, contextualize_report
    out = []
    for idx, rec in cases:
        src = session_program(rec["prog"])
        tree = ast.parse(src)
        clear_report()
        contextualize_report(src)
        for pos, step in enumerate(rec["hist"]):
            f = step["f"]
            if f == "foreign":
                # a query on another, unparsable text handed in explicitly: answers nothing, touches nothing
                from pedal.cait.cait_api import find_asts
                try:
                    got = len(find_asts("For", student_code="for (", report=R))
                except Exception as e:
                    out.append({"case": rec, "source": src, "kind": "raised", "step": pos, "f": f, "detail": "%s: %s" % (type(e).__name__, e)})
                    break
                if got != 0:
                    out.append({"case": rec, "source": src, "kind": "session", "step": pos, "f": f, "found": got, "pinned": None,
                                "expected": 0, "earlier": [s["f"] for s in rec["hist"][:pos]]})
                    break
                continue
            if f == "verifyOther":
                # the instructor syntax-checks another text with the Source tool; says nothing about the submission
                from pedal.source import verify
                try:
                    verify("pass\n", report=R)
                except Exception as e:
                    out.append({"case": rec, "source": src, "kind": "raised", "step": pos, "f": f, "detail": "%s: %s" % (type(e).__name__, e)})
                    break
                continue
            truth = len(oracle(tree, f))
            if truth != rec["prog"][f] or step["ans"] != truth:
                out.append({"case": rec, "source": src, "kind": "environment", "detail": "oracle %d, program model %d, spec answer %d for %s" % (truth, rec["prog"][f], step["ans"], f)})
                break
            try:
                found = pedal_find(f, R)
                pinned = pin_count(f, R)
            except Exception as e:
                out.append({"case": rec, "source": src, "kind": "raised", "step": pos, "f": f, "detail": "%s: %s" % (type(e).__name__, e)})
                break
            if (found is not None and found != truth) or pinned != truth:
                out.append({"case": rec, "source": src, "kind": "session", "step": pos, "f": f, "found": found, "pinned": pinned,
                            "expected": truth, "earlier": [s["f"] for s in rec["hist"][:pos]]})
                break
    return out


def session_record_chunk(files, extra):
    """Corpus sessions: one report per file, every feature queried on it in a seed-dependent order (code -> spec trace)."""
    import random
    from engine.core import setup_repo_path
    setup_repo_path()
    from pedal.core.report import MAIN_REPORT as R
    from pedal.core.commands import clear_report, contextualize_report
    traces = []
    for path in files:
        try:
            src = open(path, encoding="utf-8").read()
            tree = ast.parse(src)
        except Exception:
            continue
        if len(src) > 40000:
            continue
        rng = random.Random("%s|%s" % (os.path.basename(path), extra))
        order = list(CORPUS_FEATURES)
        rng.shuffle(order)
        clear_report()
        contextualize_report(src)
        ev, err = [], None
        for feature in order:
            lines = oracle(tree, feature)
            try:
                found = pedal_find(feature, R)
                if found is not None:
                    ev.append({"e": "find", "f": feature, "count": len(lines), "found": found})
                for pol, thr in (("ensure", 1), ("prevent", 0)):
                    fired, line = pedal_query(feature, pol, thr, R)
                    ev.append({"e": "query", "f": feature, "pol": pol, "thr": thr, "count": len(lines), "fired": fired,
                               "line": line, "lines": sorted(set(lines))})
            except Exception as e:
                ev.append({"e": "find", "f": feature, "count": 0, "found": -1})
                err = "%s: %s" % (type(e).__name__, e)
                break
        traces.append({"file": path, "feature": "session", "events": ev, "error": err, "order": order})
    return traces
