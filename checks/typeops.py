"""C19: TIFA's operator typing and value typing against specs/TypeOps.tla."""
import json

from engine import tlc
from engine.core import shard_map
from engine.tlc import MachineryError


def run(prop, tier, seed, ctx):
    ctx.assumptions += ["CPython evaluating the same expression on sample values is the oracle; the spec's rule table Py is "
                        "its prediction and is cross-checked in the same run (mismatch = machinery error)",
                        "value-dependent cells (str % x) carry no obligation; samples: 3, 2.5, 'ab', [1, 2], (1, 2)",
                        "conformance: the inferred pedal type projected to the lattice must equal the class of the run-time "
                        "value (bool conforms to int, anything to NumType's numeric classes)"]
    ctx.cov["rule"] = ("cell = operator x ordered pair of core types (and depth-2 trees in thorough) enumerated by TLC with "
                       "the predicted outcome; value shapes = nested JSON-like values of depth <= 2; non-trivial = operands of "
                       "different types; distinct = distinct cell / value")
    cfg = "MC_TypeOps_q.cfg" if tier == "quick" else "MC_TypeOps_t.cfg"
    res = tlc.run("TypeOps", cfg, workers=8, timeout=900)
    tlc.require_ok(res, cfg)
    ctx.add_tlc(res, "operator table and composition " + cfg)
    cases = list(enumerate(res.records))
    mism = shard_map("bind.typeops", "cells_chunk", cases)
    ctx.cov["replayed_cases"] += len(cases)
    ctx.count(len(cases), (json.dumps(r["e"], sort_keys=True) for _, r in cases if r["e"]["l"] != r["e"]["r"]))
    ctx.sample({"kind": "cell", "e": res.records[len(res.records) // 2]["e"], "predicted": res.records[len(res.records) // 2]["ty"]})
    ctx.cov["exhaustive"] = True
    for m in mism:
        e = m["e"]
        if m["kind"] == "environment":
            raise MachineryError("environment model wrong for %s: spec predicts %s, CPython gives %s" % (m["expr"], m["predicted"], m["cpython"]))
        shape = "%s|%s%s|%s%s" % (e.get("op", e.get("op2")), e["l"], "(%s)" % e["ls"] if e.get("ls", "full") != "full" else "", e["r"],
                                  "(%s)" % e["rs"] if e.get("rs", "full") != "full" else "") if e["k"] == "bin" else "%s|%s(%s,%s)|%s" % (e["op2"], e["op1"], e["l"], e["r"], e["c"])
        ctx.violation("C19|%s|%s" % (m["kind"], shape),
                      "%s with a:%s b:%s%s: %s (TIFA type %s, run-time value %s)" % (
                          m["expr"], e["l"], e["r"], " d:" + e["c"] if "c" in e else "", m["kind"], m.get("tifa_type"), m.get("value")), m)
    # ---- list values through a history of statements (specs/TypeAlias.tla)
    ares = tlc.run("TypeAlias", "MC_TypeAlias.cfg", workers=8, timeout=600,
                   overrides={"MaxStmts": "3" if tier == "quick" else "4"})
    tlc.require_ok(ares, "TypeAlias")
    ctx.add_tlc(ares, "list histories (concat / append) reference semantics")
    # ... plus deep random histories (tlc -simulate): eight statements
    num = 150 if tier == "quick" else 4000
    sres = tlc.run("TypeAlias", "MC_TypeAlias.cfg", workers=4, timeout=600, overrides={"MaxStmts": "8"},
                   simulate="num=%d" % num, extra=["-depth", "10", "-seed", str(1000 + seed)])
    tlc.require_ok(sres, "simulation TypeAlias")
    ctx.add_tlc(sres, "simulation (%d list histories of 8 statements)" % (4 * num))
    if len(sres.records) < num:
        raise MachineryError("simulation exported only %d histories" % len(sres.records))
    uniq = {json.dumps(r["hist"]): r for r in list(ares.records) + list(sres.records)}
    acases = list(enumerate(uniq.values()))
    amis = shard_map("bind.typeops", "alias_chunk", acases)
    ctx.cov["replayed_cases"] += len(acases)
    ctx.count(len(acases), (k for k in uniq))
    for m in amis:
        if m["kind"] == "environment":
            raise MachineryError("TypeAlias reference semantics disagrees with CPython: %s" % m)
        shape = "+".join(h["s"] for h in m["hist"])
        ctx.violation("C19|history|%s|%s" % (m["kind"], shape),
                      "after %s TIFA is silent but types %s as %s while the run-time value holds %s" % (
                          " ; ".join(m.get("source", [])[3:-1]), m.get("var"), m.get("tifa", m.get("detail")), m.get("runtime")), m)
    # ---- names bound again before they are operated on (specs/TypeRebind.tla)
    rcfg = "MC_TypeRebind_q.cfg" if tier == "quick" else "MC_TypeRebind_t.cfg"
    rres = tlc.run("TypeRebind", rcfg, workers=8, timeout=900)
    tlc.require_ok(rres, rcfg)
    ctx.add_tlc(rres, "rebinding histories " + rcfg)
    num = 300 if tier == "quick" else 6000
    rsim = tlc.run("TypeRebind", "SIM_TypeRebind_deep.cfg", workers=4, timeout=600,
                   simulate="num=%d" % num, extra=["-depth", "8", "-seed", str(2000 + seed)])
    tlc.require_ok(rsim, "simulation TypeRebind")
    ctx.add_tlc(rsim, "simulation (%d rebinding histories of up to 4 re-bindings)" % (4 * num))
    if len(rsim.records) < num:
        raise MachineryError("simulation exported only %d rebinding histories" % len(rsim.records))
    # ... and numbers only, with an operand that stays an int: where an int-or-float result is operated on again
    nres = tlc.run("TypeRebind", "MC_TypeRebind_num_q.cfg", workers=8, timeout=900)
    tlc.require_ok(nres, "MC_TypeRebind_num_q.cfg")
    ctx.add_tlc(nres, "rebinding histories over numbers MC_TypeRebind_num_q.cfg")
    runiq = {json.dumps(r["hist"]): r for r in list(rres.records) + list(nres.records) + list(rsim.records)}
    rcases = list(enumerate(runiq.values()))
    rmis = shard_map("bind.typeops", "rebind_chunk", rcases)
    ctx.cov["replayed_cases"] += len(rcases)
    ctx.count(len(rcases), (k for k in runiq))
    ctx.sample({"kind": "rebinding history", "hist": rcases[len(rcases) // 2][1]["hist"]})
    for m in rmis:
        if m["kind"] == "environment":
            raise MachineryError("TypeRebind's classes disagree with CPython: %s" % m)
        ctx.violation("C19|rebind|%s|%s" % (m["kind"], m["shape"]),
                      "%s: %s (%s)" % (" ; ".join(m["source"][:-1]), m["kind"], m.get("detail") or m.get("classes") or
                                       "TIFA types %s as %s, run-time class %s" % (m.get("var"), m.get("tifa"), m.get("runtime"))), m)
    # ---- value typing
    from bind.typeops import value_shapes
    n = len(value_shapes())
    vals = shard_map("bind.typeops", "values_chunk", list(range(n)), chunk=20)
    ctx.cov["replayed_cases"] += len(vals)
    ctx.count(len(vals), ("value:%s" % v["value"] for v in vals if v["value"][0] in "[({"))
    ctx.sample({"kind": "value", "value": vals[len(vals) // 2]["value"]})
    for v in vals:
        kind = v["value"].split("(")[0] if v["value"].startswith(("frozenset", "set")) else {"[": "list", "(": "tuple", "{": "dict/set"}.get(v["value"][0], "scalar")
        if "error" in v:
            ctx.violation("C19|value|raises|%s" % kind, "get_pedal_type_from_value(%s) raised %s" % (v["value"], v["error"]), v)
            continue
        if v.get("deep"):
            ctx.violation("C19|value|element-type|%s" % kind, "value %s: %s" % (v["value"], v["deep"]), v)
        for clause, ok in (("not-a-type", v["is_type"]), ("unstable", v["self1"] and v["self2"] and v["again"]), ("own-type", v["conforms_own"])):
            if not ok:
                ctx.violation("C19|value|%s|%s" % (clause, kind),
                              "value %s: %s (is_subtype(t,t) first=%s second=%s, recomputed=%s, conforms to %s=%s)" % (
                                  v["value"], clause, v["self1"], v["self2"], v["again"], v.get("own"), v["conforms_own"]), v)


def replay(prop, rep):
    from bind import typeops as B
    from engine.core import setup_repo_path
    setup_repo_path()
    r = rep["replay"]
    print(json.dumps(r, indent=1, default=repr)[:1500])
    return 1
