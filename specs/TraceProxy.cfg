SPECIFICATION TSpec
CONSTANTS
  BinOps = {}
  UnOps = {}
  Classes = {}
  MaxChain = 0
CONSTRAINT Progress
POSTCONDITION Post
CHECK_DEADLOCK FALSE
