SPECIFICATION Spec
CONSTANTS
  EffTokens = {"pa", "st", "im", "cb", "dm", "rso"}
  MaxEff = 1
  Modes = {"normal", "closeOut", "exc", "excBrokenStr", "exit", "sysexit", "raiseSysExit", "recursion", "syntax", "nul", "blockedEval", "importPedal", "baseKbd", "baseCustom", "internalFault", "x:keyBare", "x:custominit", "reraise", "nested", "x:noSetattr", "x:noGetattr", "x:importRaises", "x:importExit", "baseImport", "x:group", "x:chained"}
  FnModes = {"normal", "closeOut", "exc", "excBrokenStr", "sysexit", "recursion", "blockedEval", "baseKbd", "baseCustom", "internalFault", "x:noSetattr", "x:importRaises", "x:fromImport"}
  MaxFns = 1
  Depth = 7
  InputOps = {}
  Entries = {"run", "call", "evaluate"}
  TracerStyles = {"none", "native", "calls"}
  Threadeds = {FALSE, TRUE}
  Givens = {}
  Blockeds = {"none"}
  Flags = {}
INVARIANT Restored
INVARIANT Contained
INVARIANT NoSpuriousFb
INVARIANT OutputLedger
INVARIANT InputFifo
CONSTRAINT Export
CHECK_DEADLOCK FALSE
