----------------------------- MODULE MC_Static -----------------------------
EXTENDS StaticChecks
Ops == {"==", "<", "<=", ">=", ">", "!=", "is", "is not", "in", "not in", "and", "or",
        "+", "-", "*", "/", "//", "%", "**", ">>", "<<", "|", "^", "&", "@", "not", "~"}
AllFeatures == {"op:" \o s : s \in Ops} \cup
    {"call:foo", "call:print", "method:append", "lit:5", "lit:1", "lit:0", "lit:2.5", "lit:1.0", "lit:'hi'", "lit:True", "lit:False",
     "type:int", "type:float", "type:str", "type:bool", "type:list", "type:dict",
     "ast:For", "ast:While", "ast:If", "ast:ListComp", "ast:Lambda", "ast:Return", "ast:FunctionDef", "ast:Add", "ast:Lt", "ast:And", "ast:USub",
     "import:math", "importfrom:math"}
=============================================================================
