"""Binding of specs/TypeOps.tla (C19): render expressions over typed variables, evaluate them in CPython (logged
environment, also cross-checks the spec's rule table), analyse with real TIFA, compare; value typing part."""
import itertools

SAMPLE = {"int": "3", "float": "2.5", "str": "'ab'", "list": "[1, 2]", "tuple": "(1, 2)", "bool": "True"}


EMPTY = {"str": "''", "list": "[]", "tuple": "()"}


NEG = {"int": "-2", "float": "-2.5"}


def sample(t, shape):
    return EMPTY[t] if shape == "empty" else NEG[t] if shape == "neg" else SAMPLE[t]


def render(e):
    if e["k"] == "bin":
        return ["a = %s" % sample(e["l"], e.get("ls", "full")), "b = %s" % sample(e["r"], e.get("rs", "full")),
                "c = a %s b" % e["op"], "print(c)"], "a %s b" % e["op"]
    if e["k"] == "chain":
        expr = "a %s b %s d" % (e["op1"], e["op2"])
        return ["a = %s" % SAMPLE[e["l"]], "b = %s" % SAMPLE[e["r"]], "d = %s" % SAMPLE[e["c"]], "c = " + expr, "print(c)"], expr
    inner = "(a %s b)" % e["op1"]
    expr = "%s %s d" % (inner, e["op2"]) if e["k"] == "left2" else "d %s %s" % (e["op2"], inner)
    return ["a = %s" % SAMPLE[e["l"]], "b = %s" % SAMPLE[e["r"]], "d = %s" % SAMPLE[e["c"]], "c = " + expr, "print(c)"], expr


def py_eval(lines):
    env = {}
    try:
        exec("\n".join(lines[:-1]), env)
        return "ok", env["c"]
    except TypeError:
        return "typeerror", None
    except Exception as ex:
        return "other:" + type(ex).__name__, None


def value_token(v):
    return "none" if v is None else type(v).__name__


def pedal_token(t):
    """Project a pedal type to the spec's lattice; anything that is not a pedal Type is BROKEN."""
    from pedal.types.new_types import Type
    if not isinstance(t, Type):
        return "BROKEN:" + type(t).__name__
    n = type(t).__name__
    table = {"IntType": "int", "FloatType": "float", "StrType": "str", "BoolType": "bool", "ListType": "list",
             "TupleType": "tuple", "NumType": "num", "LiteralInt": "int", "LiteralFloat": "float", "LiteralStr": "str",
             "LiteralBool": "bool", "AnyType": "any", "NoneType": "none", "SetType": "set", "DictType": "dict"}
    return table.get(n, n)


def conforms(value_tok, inferred_tok):
    if inferred_tok in ("any",):
        return True
    if inferred_tok == "num":
        return value_tok in ("int", "float", "bool", "complex")
    if inferred_tok == "int" and value_tok == "bool":
        return True       # bool is a subclass of int
    return value_tok == inferred_tok


def analyse(lines):
    from pedal.core.commands import clear_report, contextualize_report
    from pedal.tifa import tifa_analysis
    clear_report()
    contextualize_report("\n".join(lines) + "\n")
    res = tifa_analysis()
    if not res.success:
        return {"failed": repr(res.error)}
    incompatible = bool(res.issues.get("incompatible_types"))
    var = res.top_level_variables.get("c")
    return {"incompatible": incompatible, "type": pedal_token(var.type) if var is not None else "missing",
            "type_object": var.type if var is not None else None}


def cells_chunk(cases, extra):
    from engine.core import setup_repo_path
    setup_repo_path()
    out = []
    for idx, rec in cases:
        e, predicted = rec["e"], rec["ty"]
        lines, expr = render(e)
        st, val = py_eval(lines)
        # ---- environment model check: the spec's Py table against CPython itself
        if predicted == "err" and st != "typeerror" or predicted not in ("err", "valuedep") and (st != "ok" or value_token(val) != predicted):
            if not (predicted == "valuedep") and not st.startswith("other"):
                out.append({"e": e, "expr": expr, "kind": "environment", "predicted": predicted,
                            "cpython": st if st != "ok" else value_token(val)})
                continue
        if predicted == "valuedep" or st.startswith("other"):
            continue                      # no obligation for value-dependent cells
        an = analyse(lines)
        if "failed" in an:
            out.append({"e": e, "expr": expr, "kind": "analysis-failed", "detail": an["failed"]})
            continue
        if st == "typeerror" and not an["incompatible"]:
            out.append({"e": e, "expr": expr, "kind": "missed-typeerror", "tifa_type": an["type"]})
        elif st == "ok" and an["incompatible"]:
            pass      # the property is one-directional: extra reports are not a violation
        elif st == "ok" and not conforms(value_token(val), an["type"]):
            out.append({"e": e, "expr": expr, "kind": "wrong-type", "value": value_token(val), "tifa_type": an["type"]})
        elif st == "ok" and an["type_object"] is not None:
            # position by position for the results whose pedal type keeps one type per position (tuples)
            deep = deep_mismatch(val, an["type_object"])
            if deep:
                out.append({"e": e, "expr": expr, "kind": "wrong-element-type", "value": repr(val)[:60], "tifa_type": an["type"], "detail": deep})
    return out


# ------------------------------------------------------------------ value typing
SCALARS = [0, 1, -3, True, False, 2.5, 0.0, "", "ab", None]


def value_shapes(depth2=True):
    vals = list(SCALARS)
    base = [1, 2.5, "ab", True, None]
    for a, b in itertools.product(base, base):
        vals += [[a, b], (a, b), {a: b} if a is not None or True else None]
        try:
            vals.append({a, b})           # (frozensets are not in the property's quantifier)
        except TypeError:
            pass
    vals += [[], (), {}, set(), [1], (1,), [[1, 2], [3]], [(1, "a"), (2, "b")], {"k": [1, 2]}, ({"a": 1}, [2.5]),
             [{"a": 1}, {"a": 2}], {"n": 1, "ok": True}, {"n": 1, "ratio": 1.0}, [1, True], [True, 1], (1, 1.0, True),
             {"a": {"b": (1, 2)}}, [None, 1], [[]], {(1, 2): "t"}]
    return vals


def deep_mismatch(value, t):
    """Element-wise conformance for the containers whose pedal type keeps one type per position:
    tuples and dicts with literal keys.  -> description of the first mismatch or None."""
    from pedal.types.new_types import TupleType, DictType, LiteralValue
    if isinstance(value, tuple) and isinstance(t, TupleType):
        ets = list(t.element_types)
        if not ets and value:
            return None                 # pedal's tuple of unknown shape ("completely generic tuples")
        if len(ets) != len(value):
            return "tuple of %d values typed with %d element types" % (len(value), len(ets))
        for v, et in zip(value, ets):
            if not conforms(value_token(v), pedal_token(et)):
                return "element %r typed %s" % (v, pedal_token(et))
            d = deep_mismatch(v, et)
            if d:
                return d
    if isinstance(value, dict) and isinstance(t, DictType) and t.element_types and all(
            isinstance(k, LiteralValue) for k, _ in t.element_types):
        by_key = {k.value: vt for k, vt in t.element_types}
        for k, v in value.items():
            if k in by_key:
                if not conforms(value_token(v), pedal_token(by_key[k])):
                    return "value %r at key %r typed %s" % (v, k, pedal_token(by_key[k]))
                d = deep_mismatch(v, by_key[k])
                if d:
                    return d
    return None


def values_chunk(idxs, extra):
    from engine.core import setup_repo_path
    setup_repo_path()
    from pedal.types.normalize import get_pedal_type_from_value, normalize_type
    from pedal.types.new_types import is_subtype, Type
    vals = value_shapes()
    out = []
    for i in idxs:
        v = vals[i]
        rec = {"i": i, "value": repr(v)}
        try:
            t = get_pedal_type_from_value(v)
            rec["is_type"] = isinstance(t, Type)
            rec["self1"] = bool(is_subtype(t, t))
            rec["self2"] = bool(is_subtype(t, t))
            t2 = get_pedal_type_from_value(v)
            rec["again"] = bool(is_subtype(t2, t) and is_subtype(t, t2))
            n = normalize_type(type(v))
            n = n.as_type() if hasattr(n, "as_type") else n
            rec["conforms_own"] = bool(is_subtype(t, n))
            rec["own"] = type(n).__name__
            rec["deep"] = deep_mismatch(v, t)
        except Exception as ex:
            rec["error"] = "%s: %s" % (type(ex).__name__, ex)
        out.append(rec)
    return out


# ------------------------------------------------------------------ list histories (specs/TypeAlias.tla)
def render_alias(hist):
    lines = ["p = []", "q = [1, 2]", "r = [1, 2]"]
    for h in hist:
        if h["s"] == "concat":
            lines.append("%s = %s + %s" % (h["d"], h["a"], h["b"]))
        elif h["s"] == "append":
            lines.append("%s.append(%s)" % (h["d"], "7" if h["a"] == "int" else "'s'"))
        else:
            lines.append("%s = %s" % (h["d"], h["a"]))
    lines.append("print(p, q, r)")
    return lines


def alias_chunk(cases, extra):
    from engine.core import setup_repo_path
    setup_repo_path()
    from pedal.core.commands import clear_report, contextualize_report
    from pedal.tifa import tifa_analysis
    out = []
    for idx, rec in cases:
        lines = render_alias(rec["hist"])
        env = {}
        exec("\n".join(lines[:-1]), env)
        # environment check: the spec's reference semantics against CPython
        for v, want in rec["final"].items():
            got = sorted({type(x).__name__ for x in env[v]})
            if got != sorted(want):
                out.append({"hist": rec["hist"], "kind": "environment", "var": v, "spec": want, "cpython": got})
        clear_report()
        contextualize_report("\n".join(lines) + "\n")
        res = tifa_analysis()
        if not res.success:
            out.append({"hist": rec["hist"], "kind": "analysis-failed", "detail": repr(res.error), "source": lines})
            continue
        if res.issues.get("incompatible_types") or res.issues.get("type_changes") or res.issues.get("type_change_append"):
            continue        # TIFA spoke up: no conformance obligation
        for v, want in rec["final"].items():
            if len(want) != 1:
                continue
            var = res.top_level_variables.get(v)
            t = var.type if var is not None else None
            tok = pedal_token(t)
            elem = getattr(t, "element_type", None)
            etok = pedal_token(elem) if elem is not None else "none"
            if tok != "list" or (not getattr(t, "is_empty", False) and etok not in (want[0], "any")) or (
                    getattr(t, "is_empty", False)):
                out.append({"hist": rec["hist"], "kind": "wrong-element-type", "var": v, "runtime": want, "tifa": "%s[%s]%s" % (
                    tok, etok, " (empty)" if getattr(t, "is_empty", False) else ""), "source": lines})
    return out


# ------------------------------------------------------------------ rebinding histories (specs/TypeRebind.tla)
def render_rebind(hist):
    lines = []
    for h in hist:
        if h["s"] == "init":
            lines += ["a = %s" % SAMPLE[h["ta"]], "b = %s\nk = 3" % SAMPLE[h["tb"]]]
        elif h["s"] == "assign":
            lines.append("a = %s" % SAMPLE[h["t"]])
        else:
            lines.append("%s = %s %s %s" % ("a" if h["s"] == "rebind" else "c", h["l"], h["op"], h["r"]))
    return lines + ["print(a, b, k)"]


def rebind_chunk(cases, extra):
    from engine.core import setup_repo_path
    setup_repo_path()
    from pedal.core.commands import clear_report, contextualize_report
    from pedal.tifa import tifa_analysis
    out = []
    for idx, rec in cases:
        hist, outcome = rec["hist"], rec["outcome"]
        lines = render_rebind(hist)
        shape = "+".join(h["s"] if h["s"] in ("init", "assign") else "%s(%s)" % (h["s"], h["op"]) for h in hist[1:])
        env = {}
        try:
            exec("\n".join(lines[:2]), env)
            for line, h in zip(lines[2:-1], hist[1:]):
                # (3 ** (3 ** 27) and 3 << (3 << 24) are numbers no machine holds: the history ends without obligation)
                if h["s"] != "assign" and h["op"] in ("**", "<<") and isinstance(env[h["r"]], int) \
                        and isinstance(env[h["l"]], (int, float)) and abs(env[h["r"]]) > 4096:
                    raise OverflowError("astronomical")
                exec(line, env)
            st = "ok"
        except TypeError:
            st = "err"
        except Exception as ex:
            st = "other:" + type(ex).__name__
        if st.startswith("other") or outcome == "valuedep":
            continue                      # (division by zero and the like: no obligation)
        # ---- environment check: the spec's classes against CPython itself
        if st != outcome or (st == "ok" and any(value_token(env[v]) != rec["ty"][v] for v in ("a", "b", "c"))):
            out.append({"hist": hist, "kind": "environment", "spec": [outcome, rec["ty"]], "source": lines,
                        "cpython": [st, {v: value_token(env.get(v)) for v in ("a", "b", "c")}]})
            continue
        clear_report()
        contextualize_report("\n".join(lines) + "\n")
        res = tifa_analysis()
        if not res.success:
            out.append({"hist": hist, "kind": "analysis-failed", "detail": repr(res.error), "source": lines, "shape": shape})
            continue
        reported = bool(res.issues.get("incompatible_types"))
        if st == "err":
            if not reported:
                out.append({"hist": hist, "kind": "missed-typeerror", "source": lines, "shape": shape,
                            "classes": {v: rec["ty"][v] for v in ("a", "b")}})
            continue
        if reported or res.issues.get("type_changes"):
            continue                      # TIFA spoke up: no conformance obligation
        for v in ("a", "c"):
            var = res.top_level_variables.get(v)
            tok = pedal_token(var.type) if var is not None else "missing"
            if not conforms(rec["ty"][v], tok):
                out.append({"hist": hist, "kind": "wrong-type", "var": v, "tifa": tok, "runtime": rec["ty"][v], "source": lines, "shape": shape})
            elif var is not None:
                deep = deep_mismatch(env[v], var.type)
                if deep:
                    out.append({"hist": hist, "kind": "wrong-element-type", "var": v, "tifa": tok, "runtime": repr(env[v])[:60],
                                "detail": deep, "source": lines, "shape": shape})
    return out
