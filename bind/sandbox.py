"""Binding of specs/Sandbox.tla: concretise abstract student files, replay behaviours on the real sandbox,
project the real state after every public call (C04, C05, C15)."""
import sys
import time

EFF = {"pa": "print('a')", "pae": "print('a', end='')", "pn": "print()", "pas": "print('a ')",
       "pab": "print('a', 'b', sep='\\t')", "w": "sys.stdout.write('b')", "wl": "sys.stdout.writelines(x for x in ['b\\n', 'a\\n'])", "sp": "print('  ')",
       "pnn": "print('\\n')", "in": "v = input('p')", "ina": "v = ask('p')", "st": "sys.settrace(None)",
       "im": "import helper_mod", "cb": "hook()",
       "wsv": "saved_out.write('c')", "pcr": "print('a', end='\\r')", "pcrb": "print('a\\rb')",
       # the program edits the interpreter's module table itself: drops an entry that was there, rebinds another
       # the program points sys.stdout at a stream of its own and leaves it there, already closed
       "rso": "sys.stdout = __import__('io').StringIO(); sys.stdout.close()",
       "dm": "sys.modules.pop('colorsys', None); sys.modules['this_is_not_a_module'] = sys; sys.modules['json'] = 'not json'"}
import colorsys  # noqa: E402,F401  (in the module table before any behaviour starts)
import json as _json_for_table  # noqa: E402,F401
HELPER_MOD = "def helper_value():\n    return 41\nLOADED = helper_value() + 1\n"
EXTRA_FILES = {"helper_mod.py": HELPER_MOD, "bad_mod.py": "y = 2\nraise ValueError('in helper file')\n",
               "exit_mod.py": "import sys\nsys.exit(2)\n", "fn_mod.py": "def boom():\n    raise KeyError('k')\n",
               "kb_mod.py": "raise KeyboardInterrupt\n",
               "ci_mod.py": "class TwoArgs(Exception):\n    def __init__(self, a, b):\n        super().__init__('two %s %s' % (a, b))\nraise TwoArgs(1, 2)\n"}
MODE_STMT = {"normal": "pass", "consoleFail": "print('\\xe9')", "closeOut": "sys.stdout.close()", "exc": "raise ValueError('boom')", "excBrokenStr": "raise BrokenStr()",
             "excBrokenRepr": "raise BrokenRepr()", "exit": "exit()", "sysexit": "sys.exit(3)",
             "raiseSysExit": "raise SystemExit", "recursion": "rec()", "syntax": "x = (",
             "nul": "x = 1\0", "blockedEval": "eval('1')", "blockedOpenW": "open('out.txt', 'w')",
             "importPedal": "import pedal", "baseKbd": "raise KeyboardInterrupt",
             "baseGen": "raise GeneratorExit", "baseCustom": "raise MyBase()",
             "internalFault": "raise FaultMarker('boom')",
             "x:keyBare": "raise KeyError", "x:key": "{}['k']", "x:zero": "1 / 0", "x:name": "undefined_name_q",
             "x:type": "1 + 'a'", "x:index": "[][0]", "x:attr": "None.foo", "x:assert": "assert False, 'nope'",
             "x:stopiter": "next(iter([]))", "x:bareexc": "raise Exception", "x:args2": "raise ValueError('a', 2)",
             "x:custominit": "raise CustomInit(1, 2)", "x:oserror": "raise OSError(2, 'No such file')",
             # further exception shapes (student-raised SyntaxError with and without details, classes with odd names,
             # groups, chained exceptions, non-string arguments)
             "x:syntaxOther": "raise SyntaxError('bad', ('other.py', 3, 1, 'x = ('))",
             "x:syntaxSelf": "raise SyntaxError('bad', ('answer.py', 1, 1, 'x = ('))", "x:syntaxBare": "raise SyntaxError",
             "x:indent": "raise IndentationError('bad indent', ('answer.py', 1, 1, '  x'))",
             "x:noname": "raise NoName()", "x:lowername": "raise oops('x')", "x:group": "raise ExceptionGroup('g', [ValueError('a')])",
             "x:unicode": "'\\ud800'.encode('utf-8')", "x:memory": "raise MemoryError", "x:notimpl": "raise NotImplementedError",
             "x:warn": "raise Warning('w')", "x:stopasync": "raise StopAsyncIteration", "x:argsnonstr": "raise ValueError(1, [2], {3: 4})",
             "x:tuplekey": "raise KeyError(('a', 1))",
             # exception classes that resist being inspected or annotated
             "x:syntaxStrLine": "raise SyntaxError('m', ('answer.py', '1', '2', 'text'))", "x:strExits": "raise StrExits()",
             "x:noSetattr": "raise NoSetattr('x')", "x:noGetattr": "raise NoGetattr('x')", "x:slots": "raise Slotted('x')",
             "x:argsProp": "raise ArgsProp('x')", "x:keySub": "raise KeySub('k')",
             "x:chained": (["try:", "    1 / 0", "except ZeroDivisionError as e:", "    raise ValueError('second') from e"], 3),
             "x:ctxchained": (["try:", "    1 / 0", "except ZeroDivisionError:", "    undefined_name_q"], 3),
             # failures inside a second student file reached through import (nested entry point Sandbox._import)
             "x:importRaises": "import bad_mod", "x:importExit": "import exit_mod", "x:importFnRaises": (["import fn_mod", "fn_mod.boom()"], 1),
             "x:fromImport": (["from fn_mod import boom", "boom()"], 1), "baseImport": "import kb_mod",
             "x:importCustomInit": "import ci_mod", "x:importUse": (["import fn_mod", "fn_mod.boom()"], 1),
             # (lines, index of the line the failure is raised on)
             "reraise": (["try:", "    raise ValueError('boom')", "except ValueError:", "    cleanup = 1", "    raise"], 1),
             "nested": (["helper_raises()"], None)}
# class of the exception the sandbox must expose for each mode
MODE_CLASS = {"exc": "ValueError", "consoleFail": "UnicodeEncodeError", "excBrokenStr": "BrokenStr", "excBrokenRepr": "BrokenRepr",
              "exit": "FunctionNotAllowed", "sysexit": "SystemExit", "raiseSysExit": "SystemExit",
              "recursion": "RecursionError", "syntax": "SyntaxError", "nul": ("SyntaxError", "ValueError"),
              "blockedEval": "FunctionNotAllowed", "blockedOpenW": "RuntimeError", "importPedal": "RuntimeError",
              "internalFault": "FaultMarker", "x:keyBare": "KeyError", "x:key": "KeyError",
              "x:zero": "ZeroDivisionError", "x:name": "NameError", "x:type": "TypeError", "x:index": "IndexError",
              "x:attr": "AttributeError", "x:assert": "AssertionError", "x:stopiter": "StopIteration",
              "x:bareexc": "Exception", "x:args2": "ValueError", "x:custominit": "CustomInit", "x:oserror":
              ("OSError", "FileNotFoundError"), "reraise": "ValueError", "nested": "ValueError",
              "x:syntaxOther": "SyntaxError", "x:syntaxSelf": "SyntaxError", "x:syntaxBare": "SyntaxError",
              "x:indent": "IndentationError", "x:noname": "", "x:lowername": "oops", "x:group": "ExceptionGroup",
              "x:unicode": "UnicodeEncodeError", "x:memory": "MemoryError", "x:notimpl": "NotImplementedError",
              "x:warn": "Warning", "x:stopasync": "StopAsyncIteration", "x:argsnonstr": "ValueError", "x:tuplekey": "KeyError",
              "x:syntaxStrLine": "SyntaxError", "x:strExits": "StrExits",
              "x:noSetattr": "NoSetattr", "x:noGetattr": "NoGetattr", "x:slots": "Slotted", "x:argsProp": "ArgsProp", "x:keySub": ("KeySub", "KeyError"),
              "x:chained": "ValueError", "x:ctxchained": "NameError", "x:importRaises": "ValueError", "x:importExit": "SystemExit",
              "x:importFnRaises": "KeyError", "x:fromImport": "KeyError", "x:importCustomInit": "TwoArgs", "x:importUse": "KeyError"}
# modes whose failure is raised on the student's own line (location is checked only for these)
STUDENT_LINE = {"syntax",      # (code that does not compile: the line the parser complains about)
                "exc", "excBrokenStr", "excBrokenRepr", "raiseSysExit", "sysexit", "x:keyBare", "x:key", "x:zero",
                "x:name", "x:type", "x:index", "x:attr", "x:assert", "x:bareexc", "x:args2", "x:custominit",
                "x:oserror", "reraise", "nested", "x:noname", "x:lowername", "x:group", "x:unicode", "x:memory", "x:notimpl",
                "x:warn", "x:stopasync", "x:argsnonstr", "x:tuplekey", "x:strExits", "x:noSetattr", "x:noGetattr", "x:slots", "x:argsProp", "x:keySub", "x:chained", "x:ctxchained", "x:syntaxBare"}
PRELUDE = """import sys
ask = input
saved_out = sys.stdout
class BrokenStr(Exception):
    def __str__(self):
        raise RuntimeError('no str for you')
class BrokenRepr(Exception):
    def __repr__(self):
        raise RuntimeError('no repr for you')
class MyBase(BaseException):
    pass
class StrExits(Exception):
    def __str__(self):
        raise SystemExit(3)
class NoSetattr(Exception):
    def __setattr__(self, name, value):
        raise RuntimeError('hands off')
class NoGetattr(Exception):
    def __getattribute__(self, name):
        raise RuntimeError('eyes off')
class Slotted(Exception):
    __slots__ = ()
class ArgsProp(Exception):
    @property
    def args(self):
        raise RuntimeError('no args')
class KeySub(KeyError):
    pass
class FaultMarker(Exception):
    pass
NoName = type('', (Exception,), {})
class oops(Exception):
    pass
def rec():
    return rec()
class CustomInit(Exception):
    def __init__(self, a, b):
        super().__init__("custom %s %s" % (a, b))
        self.a, self.b = a, b
def helper_raises():
    raise ValueError('from helper')
def cbf():
    return 1
"""
HELPER_RAISE_LINE = PRELUDE.rstrip("\n").split("\n").index("    raise ValueError('from helper')") + 1


def concretise(file):
    """-> (source, {('top'|i): line number of the mode statement})"""
    lines = PRELUDE.rstrip("\n").split("\n")
    where = {}

    def emit(mode, indent, key):
        stmt = MODE_STMT[mode]
        if isinstance(stmt, tuple):
            body, at = stmt
            where[key] = HELPER_RAISE_LINE if at is None else len(lines) + at + 1
            lines.extend(indent + b for b in body)
        else:
            lines.append(indent + stmt)
            where[key] = len(lines)
    for i, fn in enumerate(file["fns"], 1):
        lines.append("def f%d():" % i)
        for e in fn["effs"]:
            lines.append("    " + EFF[e])
        emit(fn["mode"], "    ", i)
    for e in file["top"]["effs"]:
        lines.append(EFF[e])
    emit(file["top"]["mode"], "", "top")
    return "\n".join(lines) + "\n", where


class Harness:
    def __init__(self, file):
        from pedal.core.report import Report
        from pedal.core.submission import Submission
        import pedal.sandbox  # registers the tool
        import pedal.sandbox.sandbox as sbmod
        self.sbmod = sbmod
        from pedal.sandbox import commands as C
        self.C = C
        self.file = file
        self.src, self.where = concretise(file)
        self.report = Report()
        self.report.contextualize(Submission(files=dict(EXTRA_FILES, **{"answer.py": self.src}),
                                             main_file="answer.py", main_code=self.src))
        self.sandbox = self.report["sandbox"]["sandbox"]
        self.sandbox.allowed_time = 5
        # the guard against endless input loops is per EXECUTION: set just above what any single program here reads, it
        # must never fire, however many executions the history has
        progs = [file["top"]] + list(file.get("fns", []))
        self.sandbox.MAXIMUM_INPUTS = max(len(pr["effs"]) for pr in progs) + 1
        # half of the files are graded with the HTML formatter on the report (what the web environments install):
        # describing a failure must not depend on it
        import os as _os
        if _os.environ.get("VERIF_FORCE_HTML") or (len(self.src) + len(file.get("fns", []))) % 2:
            from pedal.core.formatting import HtmlFormatter
            self.report.set_formatter(HtmlFormatter(self.report))
        # the "real console" that run(real_io=True) echoes to (pedal remembers sys.stdout at import time)
        import io as _io
        from pedal.sandbox import mocked as _mocked
        self.console = _io.TextIOWrapper(_io.BytesIO(), encoding="ascii", write_through=True)     # an ASCII terminal
        _mocked.PrintingStringIO._ORIGINAL_STDOUT = self.console
        self.threaded = bool(file.get("threaded", False))
        # nested imports of student files consult the sandbox's own flag, not the per-call argument
        self.sandbox.threaded = self.threaded
        # hook(): an instructor-supplied callable handed to the student's code that calls back into the sandbox
        self.sandbox.data["hook"] = lambda: C.call("cbf", report=self.report)
        if file.get("blocked", "none") != "none":
            C.block_module(file["blocked"], report=self.report)
        style = file.get("tracer", "none")
        if style != "none":
            self.sandbox.tracer_style = style

        def harness_tracer(frame, event, arg):
            return None
        self.harness_tracer = harness_tracer
        sys.settrace(harness_tracer)
        self.orig_out = sys.stdout
        self.orig_sleep = time.sleep
        self.orig_modules = dict(sys.modules)
        self.seen_fbs = 0
        self.fbs = []

    def fault_injection(self, on):
        sb = self.sbmod
        if on:
            self._orig_re = sb.runtime_error

            def faulty(exception=None, **kw):
                if type(exception).__name__ == "FaultMarker":
                    raise RuntimeError("injected fault while building the runtime feedback")
                return self._orig_re(exception=exception, **kw)
            sb.runtime_error = faulty
        else:
            sb.runtime_error = self._orig_re

    def do(self, a):
        C = self.C
        r = self.report
        op = a["op"]
        mods_before = dict(sys.modules)
        prog = None
        status = "returned"
        err = None
        self.fault_injection(True)
        try:
            if op == "run_real":
                prog = self.file["top"]
                self.sandbox.run(real_io=True)
            elif op == "run":
                prog = self.file["top"]
                C.run(report=r, threaded=self.threaded)
            elif op == "call":
                prog = self.file["fns"][a["i"] - 1]
                C.call("f%d" % a["i"], report=r, threaded=self.threaded)
            elif op == "evaluate":
                prog = self.file["fns"][a["i"] - 1]
                C.evaluate("f%d()" % a["i"], report=r, threaded=self.threaded)
            elif op in ("run_in", "call_in"):
                # the convenience parameter: a list, or (for a lone empty string) the documented str form
                given = "" if list(a["xs"]) == [""] else list(a["xs"])
                if op == "run_in":
                    prog = self.file["top"]
                    C.run(report=r, threaded=self.threaded, inputs=given)
                else:
                    prog = self.file["fns"][a["i"] - 1]
                    C.call("f%d" % a["i"], report=r, threaded=self.threaded, inputs=given)
            elif op == "clear_output":
                C.clear_output(report=r)
            elif op == "set_input":
                C.set_input(list(a["xs"]), report=r)
            elif op == "queue_input":
                C.queue_input(*a["xs"], report=r)
            elif op == "clear_input":
                C.clear_input(report=r)
            elif op == "set_input_self":
                C.set_input(C.get_input(report=r), report=r)
            else:
                raise ValueError(op)
        except BaseException as e:
            status = "raised"
            err = "%s: %s" % (type(e).__name__, safe_str(e))
        finally:
            self.fault_injection(False)
        # operations that execute nothing leave the sandbox's exception as it was: it still belongs to the program
        # of the last execution
        if prog is None and op in ("clear_output", "set_input", "queue_input", "clear_input", "set_input_self"):
            prog = getattr(self, "last_prog", None)
        else:
            self.last_prog = prog
        proj = self.project(status, prog, mods_before, a)
        proj["error"] = err
        return proj

    def project(self, status, prog, mods_before, a):
        sb = self.sandbox
        mods_now = sys.modules
        same_mods = set(mods_now) == set(mods_before) and all(mods_now[k] is mods_before[k] for k in mods_before)
        new = [f for f in self.report.feedback[self.seen_fbs:]]
        self.seen_fbs = len(self.report.feedback)
        lineinfo = []
        for f in new:
            if f.category == "runtime" or getattr(f, "tool", None) == "sandbox":
                ex = f.fields.get("exception") if isinstance(f.fields, dict) else None
                cls = type(ex).__name__ if ex is not None else "?"
                mode = prog["mode"] if prog and class_matches(prog["mode"], cls) else "other:" + cls
                self.fbs.append({"exec": len(sb._context) - (list(prog["effs"]).count("cb") if prog and prog["mode"] not in ("syntax", "nul") else 0),
                                 "mode": mode})
                if prog and prog["mode"] in STUDENT_LINE:
                    want = self.where["top" if a["op"] in ("run", "run_in", "run_real") else a["i"]]
                    got = f.location.line if f.location is not None else None
                    lineinfo.append({"want": want, "got": got})
        ex = sb.exception
        ex = unwrap(ex)
        if ex is None:
            exc = "none"
        else:
            cls = type(ex).__name__
            exc = prog["mode"] if prog and class_matches(prog["mode"], cls) else "other:" + cls
        patched_out = sys.stdout is not self.orig_out
        patched_sleep = time.sleep is not self.orig_sleep
        proj = {"pTrace": "orig" if sys.gettrace() is self.harness_tracer else "changed",
                "pOut": "patched" if patched_out else "real", "pSleep": "patched" if patched_sleep else "real",
                "pMods": "real" if same_mods else "patched",
                "patches": len(sb._current_patches), "stdouts": len(sb._current_stdout),
                "raw": list(sb.raw_output.replace("\xe9", "E")), "lines": [list(x.replace("\xe9", "E")) for x in sb.output],
                "ctxs": [{"out": list(c.output.replace("\xe9", "E")), "inputs": list(c.inputs)} for c in sb._context],
                "inputs": list(sb.inputs) if isinstance(sb.inputs, list) else ["<callable>"],
                "exc": exc, "fbs": list(self.fbs), "status": status, "lineinfo": lineinfo}
        return proj

    def force_restore(self):
        sb = self.sandbox
        while sb._current_patches:
            try:
                sb._stop_patches()
            except Exception:
                break
        sys.stdout = self.orig_out
        time.sleep = self.orig_sleep
        sys.settrace(None)
        # whatever the code under test left in the module table must not reach the next behaviour
        for name in list(sys.modules):
            if name not in self.orig_modules:
                del sys.modules[name]
        for name, mod in self.orig_modules.items():
            if sys.modules.get(name) is not mod:
                sys.modules[name] = mod
        del sb._current_patches[:]
        del sb._current_stdout[:]


def unwrap(v):
    from pedal.sandbox.result import SandboxResult
    if type(v) is SandboxResult:
        return object.__getattribute__(v, "value")
    return v


def safe_str(e):
    try:
        return str(e)[:200]
    except BaseException:
        return "<unprintable>"


def class_matches(mode, cls):
    want = MODE_CLASS.get(mode)
    if want is None:
        return False
    return cls in want if isinstance(want, tuple) else cls == want


KEYS = ["pTrace", "pOut", "pSleep", "pMods", "patches", "stdouts", "raw", "lines", "ctxs", "inputs", "exc", "fbs", "status"]
PROP_KEYS = {"C05": {"pTrace", "pOut", "pSleep", "pMods", "patches", "stdouts"},
             "C04": {"exc", "fbs", "status", "line"},
             "C15": {"raw", "lines", "ctxs", "inputs"}}


def replay_one(rec):
    """Replay one exported behaviour; returns the list of steps whose projection differs from the spec."""
    h = Harness(rec["file"])
    out = []
    try:
        for step, st in enumerate(rec["hist"], 1):
            a = st["a"]
            proj = h.do(a)
            exp = st["s"]
            mode = "-"
            if a["op"] in ("run", "call", "evaluate", "run_in", "call_in", "run_real"):
                mode = (h.file["top"] if a["op"] in ("run", "run_in", "run_real") else h.file["fns"][a["i"] - 1])["mode"]
            if mode == "recursion":
                # CPython itself drops a Python-level trace function that overflows the stack: not observable
                proj["pTrace"] = exp["pTrace"]
                if proj["pTrace"] == "orig":
                    sys.settrace(h.harness_tracer)
            bad = [k for k in KEYS if proj[k] != exp[k]]
            if any(li["want"] != li["got"] for li in proj["lineinfo"]):
                bad.append("line")
            if bad:
                out.append({"step": step, "action": a, "fields": bad, "file": rec["file"], "source": h.src, "mode": mode,
                            "observed": {k: proj[k] for k in bad if k in proj} | {"error": proj.get("error"), "lineinfo": proj["lineinfo"]},
                            "expected": {k: exp[k] for k in bad if k in exp},
                            "hist": [x["a"] for x in rec["hist"]]})
            if proj["pOut"] != "real" or proj["patches"] or exp["pOut"] != "real":
                break
        return out
    finally:
        h.force_restore()


def replay_chunk(cases, extra):
    from engine.core import setup_repo_path
    setup_repo_path()
    import io
    out = []
    import os, shutil, tempfile, warnings
    for idx, rec in cases:
        if rec["file"].get("tracer") == "coverage":
            # coverage.py writes its data file into the working directory: every behaviour gets a directory of its own
            # (shards run side by side), removed afterwards
            here, tmp = os.getcwd(), tempfile.mkdtemp(prefix="vcov")
            os.chdir(tmp)
            try:
                with warnings.catch_warnings():
                    warnings.simplefilter("ignore")
                    out.extend(replay_one(rec))
            finally:
                os.chdir(here)
                shutil.rmtree(tmp, ignore_errors=True)
            continue
        out.extend(replay_one(rec))
    return out
