SPECIFICATION Spec
CONSTANTS
  MaxOps = 10
  Threadeds = {FALSE, TRUE}
  Flags = {}
INVARIANT SameReturn
INVARIANT SameGlobals
CONSTRAINT Export
CHECK_DEADLOCK FALSE
