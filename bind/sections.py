"""Binding of specs/Sections.tla: concretise files, replay behaviours on the real Source tool, TIFA and sandbox."""
import re

PATTERNS = {"default": (None, "##### Part %d"), "custom": (r"^(# SECTION .+)$", "# SECTION %d"),
            # the same marker written without a capture group: the marker lines are separators all the same
            "nogroup": (r"^# SECTION .+$", "# SECTION %d")}


def concretise(chars, pattern="default", variant="A"):
    """chars: list of tokens; returns (source, {line text -> token})."""
    text = []
    back = {}
    part = 0
    samelines = back.setdefault("__lines__", [])
    for ch in chars:
        if ch == "\n":
            text.append("\n")
        elif ch == "M":
            part += 1
            t = PATTERNS[pattern][1] % part
            text.append(t)
            back[t] = "M"
        elif ch == "F":
            t = "page = 'a\x0cb'  # form feed\x0c inside"
            text.append(t)
            back[t] = "F"
            continue
        else:
            t = {"A": "print((lambda p_%s: undef_%s)(1))", "B": "v%s = = 1", "C": "def f%s(): return undef_%s", "D": "print(undef_same)"}[variant].replace("%s", ch)
            text.append(t)
            back[t] = ch
            if variant == "D":
                # every code line has the SAME text (two sections can then be equal as texts); lines are told apart
                # by position only
                back[t] = "same"
                samelines.append(int(ch))
    return "".join(text), back


def want_same_lines(file_tokens, exp):
    """Original-file lines of the code lines the specification says are presented now (variant D)."""
    main = [t for t in exp["main_numbered"] if t not in ("\n", "M", "F")]
    return {int(t) for t in main}


def tokens(code, back):
    out = []
    parts = code.split("\n")
    for i, p in enumerate(parts):
        if p != "":
            out.append(back.get(p, "?" + p))
        if i < len(parts) - 1:
            out.append("\n")
    return out


def replay_one(rec, pattern, variant):
    from pedal.core.report import MAIN_REPORT, Report
    from pedal.core.commands import clear_report, contextualize_report
    from pedal.source import separate_into_sections, next_section, stop_sections, verify
    # every other file is walked on a Report object of its own instead of the global one (every call takes report=)
    R = Report() if (len(rec["file"]) + len(rec["hist"])) % 2 else MAIN_REPORT
    from pedal.tifa import tifa_analysis
    from pedal.sandbox import commands as SB
    from pedal.resolvers import simple
    src, back = concretise(rec["file"], pattern, variant)
    clear_report(report=R)
    contextualize_report(src, report=R)
    independent = rec["mode"] == "independent"
    seen = 0
    out = []
    earlier = []          # code lines (tokens) of the sections already presented and executed
    for step, h in enumerate(rec["hist"], 1):
        a, exp = h["a"], h["s"]
        raised = None
        try:
            if a == "separate":
                if PATTERNS[pattern][0]:
                    separate_into_sections(pattern=PATTERNS[pattern][0], independent=independent, report=R)
                else:
                    separate_into_sections(independent=independent, report=R)
            elif a == "next":
                next_section(report=R)
            elif a == "stop":
                stop_sections(report=R)
            elif a == "resolve":
                simple.resolve(report=R)
        except Exception as e:
            raised = "%s: %s" % (type(e).__name__, e)
        src_data = R["source"]
        past = any(f.label == "not_enough_sections" for f in R.feedback)
        proj = {"main": tokens(R.submission.main_code, back),
                "offset": R.submission.line_offsets.get(R.submission.main_file, 0),
                "stack": len(src_data["substitutions"]), "pastEnd": past, "raised": raised is not None,
                "idx": src_data["section"]}
        # the offset only matters to C17 while a section is presented; what it is once the whole file is back is
        # C12's business (verify() after stop_sections must report CPython's line), checked there
        if variant == "D":      # code lines are indistinguishable as texts
            exp = dict(exp, main=[t if t in ("\n", "M", "F") else "same" for t in exp["main"]], main_numbered=exp["main"])
        bad = [k for k in proj if proj[k] != exp[k] and not (k == "offset" and (not independent or a in ("stop", "resolve") or exp["pastEnd"]))]
        # ---- tools that report line numbers while the section is presented
        diags = []
        presenting = a in ("separate", "next") and not past and raised is None and exp["diags"]
        if presenting:
            n0 = len(R.feedback)
            ok = verify(report=R)
            for f in R.feedback[n0:]:
                if f.category == "syntax" and f.label in ("syntax_error", "indentation_error"):
                    diags.append(("syntax", f.location.line, f.fields.get("lineno")))
            if not ok and variant == "B":
                # the instructor runs the section although it does not compile: the failure recorded by the sandbox is
                # the same syntax error, on the same line of the original file
                n1 = len(R.feedback)
                SB.run(report=R)
                for f in R.feedback[n1:]:
                    if f.category == "runtime" or getattr(f, "tool", None) == "sandbox":
                        diags.append(("runsyntax", f.location.line if f.location else None, "run"))
            if ok and variant == "C":
                # functions defined in the presented section, then an instructor call that fails inside one
                SB.run(report=R)
                toks = [t for t in proj["main"] if t not in ("\n", "M", "F")]
                n1 = len(R.feedback)
                if toks and SB.get_exception(report=R) is None:
                    SB.call("f" + toks[0], report=R)
                    for f in R.feedback[n1:]:
                        if f.category == "runtime":
                            m = re.search(r"undef_(\d+)", str(f.fields.get("exception")))
                            ident = "undef_" + (m.group(1) if m else "?")
                            diags.append(("runtime", f.location.line if f.location else None, ident))
                            stack = [fr for fr in (f.fields.get("traceback_stack") or []) if fr.filename == R.submission.main_file]
                            if stack:
                                diags.append(("traceback", stack[-1].lineno, ident))
                # ... and calls that fail inside a function an EARLIER section defined (the student module keeps it):
                # its lines are lines of the original file too
                for tok in (earlier if independent else []):
                    n2 = len(R.feedback)
                    SB.call("f" + tok, report=R)
                    for f in R.feedback[n2:]:
                        if f.category == "runtime":
                            stack = [fr for fr in (f.fields.get("traceback_stack") or []) if fr.filename == R.submission.main_file]
                            got = {"runtime": f.location.line if f.location else None, "traceback": stack[-1].lineno if stack else None}
                            for tool, line in got.items():
                                if line != int(tok):
                                    bad.append("line:%s-earlier-section" % tool)
                                    proj.setdefault("wrong_lines", []).append({"tool": tool + "-earlier-section", "tok": tok, "reported": line, "expected": int(tok)})
                if SB.get_exception(report=R) is not None or True:
                    earlier.extend(t for t in toks if t not in earlier)
            if ok and variant == "D":
                # sections with identical text: each one's TIFA issues carry ITS lines of the original file
                res = tifa_analysis(report=R)
                got_lines = sorted({issue.location.line for label in ("initialization_problem", "possible_initialization_problem")
                                    for issue in res.issues.get(label, []) if issue.fields.get("name") == "undef_same"})
                want_lines = want_same_lines(rec["file"], exp)
                if want_lines and (not got_lines or any(g not in want_lines for g in got_lines)):
                    bad.append("line:tifa-identical-sections")
                    proj.setdefault("wrong_lines", []).append({"tool": "tifa-identical-sections", "reported": got_lines, "expected_among": sorted(want_lines)})
            if ok and variant == "A":
                res = tifa_analysis(report=R)
                for label in ("initialization_problem", "possible_initialization_problem"):
                    for issue in res.issues.get(label, []):
                        diags.append(("tifa", issue.location.line, issue.fields["name"]))
                # (the parameter of the anonymous function on the same line is never used: located like everything else)
                for issue in res.issues.get("unused_variable", []):
                    if str(issue.fields.get("name", "")).startswith("p_"):
                        diags.append(("tifa", issue.location.line, "undef_" + issue.fields["name"][2:]))
                n1 = len(R.feedback)
                SB.run(report=R)
                for f in R.feedback[n1:]:
                    if f.category == "runtime":
                        m = re.search(r"undef_(\d+)", str(f.fields.get("exception")))
                        diags.append(("runtime", f.location.line if f.location else None, "undef_" + (m.group(1) if m else "?")))
                        stack = f.fields.get("traceback_stack") or []
                        if stack:
                            diags.append(("traceback", stack[-1].lineno, "undef_" + (m.group(1) if m else "?")))
                            msg = f.fields.get("traceback_message") or ""
                            mm = re.findall(r"line (\d+)", msg)
                            if mm:
                                diags.append(("traceback", int(mm[-1]), "undef_" + (m.group(1) if m else "?")))
            want = {(d["tool"], d["tok"]): d["reported"] for d in exp["diags"]}
            got_tools = set()
            for tool, line, ident in diags:
                if tool in ("syntax", "runsyntax"):
                    # CPython reports the first unclosed parenthesis of the presented text
                    toks = [t for t in proj["main"] if t not in ("\n", "M", "F")]
                    tok = toks[0] if toks else "?"
                else:
                    tok = str(ident).replace("undef_", "")
                got_tools.add(tool)
                if want.get(("syntax" if tool == "runsyntax" else tool, tok)) != line:
                    bad.append("line:%s" % tool)
                    proj.setdefault("wrong_lines", []).append({"tool": tool, "tok": tok, "reported": line, "expected": want.get(("syntax" if tool == "runsyntax" else tool, tok))})
            expected_tools = {"B": {"syntax"}, "A": {"tifa", "runtime", "traceback"}, "C": {"runtime", "traceback"}, "D": set()}[variant]
            if exp["diags"] and not expected_tools <= got_tools:
                bad.append("missing-diagnostic:%s" % sorted(expected_tools - got_tools))
        if bad:
            out.append({"step": step, "action": a, "fields": sorted(set(bad)), "file": rec["file"], "mode": rec["mode"],
                        "pattern": pattern, "variant": variant, "source": src, "error": raised,
                        "observed": {k: proj.get(k) for k in ("main", "offset", "stack", "pastEnd", "raised", "idx", "wrong_lines")},
                        "expected": {k: exp[k] for k in ("main", "offset", "stack", "pastEnd", "raised", "idx")},
                        "hist": [x["a"] for x in rec["hist"]]})
        if raised is not None:
            break
    clear_report(report=R)
    return out


def replay_chunk(cases, extra):
    from engine.core import setup_repo_path
    setup_repo_path()
    out = []
    for idx, rec in cases:
        for pattern in extra["patterns"]:
            for variant in ("A", "B", "C", "D"):
                out.extend(replay_one(rec, pattern, variant))
    return out
