#!/bin/sh
# Offline setup: nothing to build (pure Python + TLC); verify the toolchain and parse every spec.
set -e
cd "$(dirname "$0")"
mkdir -p build evidence replays
/venv/bin/python -c "import hypothesis, jsonschema" 
java -version 2>&1 | head -1
for f in specs/*.tla; do
  case "$f" in *Trace*) continue;; esac
  (cd specs && java -cp /opt/veriftools/tla/tla2tools.jar:/opt/veriftools/tla/CommunityModules-deps.jar tla2sany.SANY "$(basename $f)" >/dev/null 2>&1) || { echo "SANY failed on $f"; exit 1; }
done
echo setup ok
