SPECIFICATION Spec
CONSTANTS
  Scripts <- AllScripts
  Subs = {"ok", "crash", "unused", "parts", "syntax", "mathy", "mathmut"}
  MaxLen = 2
  ClearResets <- CodeClearResets
  Writes <- W
  Reads <- R
INVARIANT PristineAtStart
CONSTRAINT Export
CHECK_DEADLOCK FALSE
