----------------------------- MODULE TraceVerify -----------------------------
EXTENDS SourceVerify, IOUtils, TLCExt
Traces == JsonDeserialize(IOEnv.TRACE_FILE)
NT == Len(Traces)
VARIABLES tid, l
tvars == <<hist, tree, success, tid, l>>
ASSUME \A i \in 1..(2 * NT) : TLCSet(i, 0)
Ev == Traces[tid][l]
More == l <= Len(Traces[tid])
TInit == tid \in 1..NT /\ l = 1 /\ hist = <<>> /\ tree = -1 /\ success = FALSE
TStep == More /\ CallOk(Ev) /\ l' = l + 1 /\ UNCHANGED <<hist, tree, success, tid>>
TSpec == TInit /\ [][TStep]_tvars
Progress == IF l > TLCGet(tid) THEN TLCSet(tid, l) /\ TLCSet(NT + tid, IF More THEN FailMask(Ev) ELSE 0) ELSE TRUE
Post == LET rej == {i \in 1..NT : TLCGet(i) < Len(Traces[i]) + 1} IN
        /\ PrintT(<<"ACCEPTED", NT - Cardinality(rej)>>)
        /\ \A i \in rej : PrintT(<<"REJECTED", i, TLCGet(i), ToString(TLCGet(NT + i))>>)
=============================================================================
