SPECIFICATION Spec
CONSTANTS
  Feats = {"type:str", "lit:5", "ast:For", "call:print", "op:+", "foreign", "verifyOther"}
  MaxOcc = 1
  MaxLen = 3
  Flags = {"steals_foreign_tree"}
INVARIANT HistoryIndependent
CONSTRAINT Export
CHECK_DEADLOCK FALSE
