"""C14: time-limit violation on the threaded path against specs/TimeoutRace.tla.

1. TLC checks every interleaving of grader and student thread at shared-state granularity for the repaired
   design (grader_bookkeeping) and every student kind; the pinned design (student_bookkeeping) is kept as a
   mutant that must violate; a vacuity guard checks that the quiescent state is reachable.
2. Every hook-level schedule TLC enumerates is forced on real threads through the guarded synchronisation
   points, and the quiescent real state is compared with the specification's.
3. Free-running executions of each student kind are judged against the same clauses.
"""
import json

from engine import tlc
from engine.core import shard_map, watchdog_map
from engine.tlc import MachineryError

KINDS = ["busy", "printer", "swallower", "blocked", "finisher", "catcher", "importer", "unwinder"]
# the later execution threaded as well (a blocked student is released, and dies, during it)
TN_CFGS = ["catcher_tn", "blocked_tn", "busy_tn", "printer_tn", "importer_tn"]
PROPERTY_INVS = {"ExcIsTimeout", "ExcStable", "OneRuntimeFb", "StacksEmpty", "NoCrash", "NextRunClean", "NextExcNone"}
DESIGN_MUTANTS = [("MUT_Timeout_inject_exception.cfg", "an injected exception class derived from Exception (a catcher swallows it)"),
                  ("MUT_Timeout_shared_field.cfg", "the student thread's exception handed back through one sandbox field"),
                  ("MUT_Timeout_nested_import_thread.cfg", "a helper thread of its own for an import inside a time-limited execution"),
                  ("MUT_Timeout_thread_exc_wins.cfg", "an error recorded by the unwinding student thread preferred over the timeout")]


def run(prop, tier, seed, ctx):
    ctx.assumptions += ["thread scheduling inside C code is not modelled; the asynchronous SystemExit is delivered "
                        "when the student thread next runs bytecode",
                        "under forcing only one thread runs between two synchronisation points",
                        "a student program that swallows the asynchronous exit can not be stopped in CPython; "
                        "its effect on later output is a known finding at model level",
                        "wall-clock clause: return within limit + 2 s, must reproduce three times"]
    ctx.cov["rule"] = ("cases = (a) TLC states of the two-thread model per student kind, (b) hook-level schedules "
                       "forced on real threads, (c) free-running threaded executions; non-trivial = the execution "
                       "timed out; distinct = distinct (kind, schedule) or (kind, run index)")
    # ---- 1. model checking
    for kind in KINDS + TN_CFGS:
        res = tlc.run("TimeoutRace", "MC_Timeout_grader_bookkeeping_%s.cfg" % kind, workers=4, timeout=600, cont=True)
        ctx.add_tlc(res, "all interleavings, repaired design, kind=" + kind)
        bad = sorted(set(res.violated) & PROPERTY_INVS)
        if [e for e in res.errors if "violated" not in e and "behavior" not in e.lower()]:
            raise MachineryError("TLC error for kind %s: %s" % (kind, res.errors[:3]))
        for inv in bad:
            ctx.violation("C14|model|%s|%s" % (kind, inv),
                          "TLC: invariant %s fails for the repaired design with a %s student program" % (inv, kind),
                          {"cfg": "MC_Timeout_grader_bookkeeping_%s.cfg" % kind, "invariant": inv})
        if kind in TN_CFGS:
            continue
        vac = tlc.run("TimeoutRace", "VAC_Timeout_%s.cfg" % kind, workers=2, timeout=300)
        if "QuietReachable" not in vac.violated:
            raise MachineryError("vacuity: quiescent state not reachable for kind " + kind)
    ctx.notes.append("vacuity guard: Quiet reachable for every kind")
    muts = ["busy", "blocked"] if tier == "quick" else ["busy", "printer", "finisher", "blocked"]
    for kind in muts:
        m = tlc.run("TimeoutRace", "MC_Timeout_student_bookkeeping_%s.cfg" % kind, workers=8, timeout=600, cont=True)
        if not set(m.violated) & PROPERTY_INVS:
            raise MachineryError("mutant design student_bookkeeping/%s did not violate anything" % kind)
        ctx.notes.append("self-test: pinned design student_bookkeeping/%s violates %s" % (kind, sorted(set(m.violated))))
    for mcfg, what in DESIGN_MUTANTS:
        m = tlc.run("TimeoutRace", mcfg, workers=4, timeout=600, cont=True)
        if not set(m.violated) & PROPERTY_INVS:
            raise MachineryError("design mutant %s did not violate anything" % mcfg)
        ctx.notes.append("self-test: %s violates %s" % (what, sorted(set(m.violated) & PROPERTY_INVS)))
    # ---- 2. forced schedules
    forced = []
    for kind in ["busy", "printer", "finisher", "blocked"]:
        res = tlc.run("TimeoutRace", "SCHED_Timeout_%s.cfg" % kind, workers=1, timeout=300)
        tlc.require_ok(res, "schedule export " + kind)
        uniq = {}
        for r in res.records:
            uniq.setdefault(tuple(r["sched"]), r)
        forced += [(kind, r) for r in uniq.values()]
    reps = 1 if tier == "quick" else 3
    wd = watchdog_map("bind.timeout", "forced_chunk", forced * reps, per_item_timeout=20, procs=8)
    for (kind, rec), o, hung in wd:
        if hung:
            ctx.violation("C14|forced|%s|Bounded" % kind, "forced schedule %s on a %s student: the call did not return within 20 s" % (rec["sched"], kind),
                          {"kind": kind, "schedule": rec["sched"]})
    outs = [o for _, o, hung in wd if not hung]
    realized = [o for o in outs if not o["unrealizable"]]
    ctx.cov["traces_validated_against_impl"] += len(realized)
    ctx.cov["forced_schedules"] = {"enumerated": len(forced), "executions": len(outs), "realized": len(realized),
                                   "unrealizable": len(outs) - len(realized)}
    ctx.count(len(outs), ("forced:%s:%s" % (o["kind"], ",".join(o["schedule"])) for o in realized if o["exc_at_return"] != "none"))
    if realized:
        ctx.sample({"kind": "forced schedule", "student": realized[0]["kind"], "schedule": realized[0]["schedule"],
                    "observed": {k: realized[0][k] for k in ("exc_at_return", "runtime_fbs", "first_share", "next_output")}})
    if outs and len(realized) < len(outs) * 0.6 and not any(o["violated"] for o in outs):
        raise MachineryError("only %d of %d forced schedules were realizable" % (len(realized), len(outs)))
    for o in outs:
        for clause in o["violated"]:
            ctx.violation("C14|forced|%s|%s" % (o["kind"], clause.split("(")[0]),
                          "forced schedule %s on a %s student: clause %s fails (exception %s, runtime feedbacks %s)" % (
                              o["schedule"], o["kind"], clause, o["exc_at_return"], o["runtime_fbs"]), o)
    # ---- 3. free-running
    n = 3 if tier == "quick" else 25
    cases = []
    for kind in ["busy", "printer", "blocked", "swallower", "swallower_loud", "finisher", "raiser_late", "catcher",
                 "catcher_loud", "blocked_tn", "busy_tn", "printer_tn", "catcher_tn", "importer", "importer_tn", "unwinder", "unwinder_tn",
                 "importer_nat", "importer_tn_nat", "busy_nat", "printer_tn_nat",
                 "blocked_nat", "blocked_cov", "busy_cov", "blocked_tn_cov"]:
        for i in range(n):
            allowed = [0.05, 0.08, 0.12][(i + seed) % 3]
            fin = [20000, 300000, 1500000, 4000000][(i + seed) % 4]
            cases.append((kind, allowed, fin))
    wd = watchdog_map("bind.timeout", "free_chunk", cases, per_item_timeout=15, procs=4)
    for (kind, allowed, fin), o, hung in wd:
        if hung:
            ctx.violation("C14|free|%s|Bounded" % kind, "free-running %s student (limit %.2fs): run(threaded=True) did not return within 15 s" % (kind, allowed),
                          {"kind": kind, "allowed": allowed})
    outs = [o for _, o, hung in wd if not hung]
    ctx.cov["replayed_cases"] += len(outs)
    ctx.count(len(outs), ("free:%s:%d" % (o["kind"], i) for i, o in enumerate(outs) if o.get("judged_timed_out")))
    ctx.sample({"kind": "free-running", "student": outs[0]["kind"], "observed": {k: outs[0][k] for k in ("elapsed", "exc_at_return", "runtime_fbs", "next_output")}})
    for o in outs:
        for clause in o["violated"]:
            if clause == "Bounded":
                again = shard_map("bind.timeout", "free_chunk", [(o["kind"], o["allowed"], 300000)] * 2, procs=1)
                if not all("Bounded" in a["violated"] for a in again):
                    ctx.notes.append("slow run (not reproduced): %s %.2fs" % (o["kind"], o["elapsed"]))
                    continue
            ctx.violation("C14|free|%s|%s" % (o["kind"].split("_")[0], clause),
                          "free-running %s student (limit %.2fs): clause %s fails (exception %s, runtime feedbacks %s, next output %r)" % (
                              o["kind"], o["allowed"], clause, o["exc_at_return"], o["runtime_fbs"], o["next_output"]), o)


def replay(prop, rep):
    from bind import timeout as B
    from engine.core import setup_repo_path
    setup_repo_path()
    r = rep["replay"]
    if "schedule" in r:
        o = B.forced_chunk([(r["kind"], {"sched": r["schedule"], "exc": "timeout", "fbs": ["timeout"], "share": []})], None)[0]
    else:
        o = B.free_chunk([(r["kind"], r["allowed"], 300000)], None)[0]
    print(json.dumps(o, indent=1, default=repr))
    return 1 if o["violated"] else 0
