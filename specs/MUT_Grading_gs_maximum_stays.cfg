SPECIFICATION Spec
CONSTANTS
  Scripts = {"gsmax@gs", "gsplain@gs", "plain"}
  Subs = {"ok"}
  MaxLen = 3
  ClearResets <- GsMaximumStays
  Writes <- W
  Reads <- R
  SubWrites <- SW
  SubReads <- SR
INVARIANT PristineAtStart
CONSTRAINT Export
CHECK_DEADLOCK FALSE
