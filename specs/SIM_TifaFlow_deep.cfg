SPECIFICATION Spec
CONSTANTS
  Vars = {"x", "y", "z"}
  MaxTok = 16
  MaxDepth = 3
  Types = {"i", "s"}
  CondVars = {"x"}
  Copies = TRUE
  Flags = {}
INVARIANT ReadsExact
INVARIANT UnusedExact
CONSTRAINT Export
CHECK_DEADLOCK FALSE
