#!/bin/bash
# Confirm each seeded change produced by a sub-agent in its scratch worktree: tests unchanged, demo 0 -> 1.
# usage: verify_seeds.sh C01 C02 ...
for id in "$@"; do
  WT=${WTBASE:-/tmp/wt}/$id
  for k in 1 2; do
    [ -f $WT/_seed/patch$k.diff ] || { echo "$id/$k: no patch"; continue; }
    git -C $WT checkout -q -- pedal
    (cd $WT && /venv/bin/python _seed/demo$k.py >/dev/null 2>&1); d0=$?
    if ! git -C $WT apply --check _seed/patch$k.diff 2>/dev/null; then echo "$id/$k: patch does not apply"; continue; fi
    git -C $WT apply _seed/patch$k.diff
    (cd $WT && /venv/bin/python _seed/demo$k.py >/dev/null 2>&1); d1=$?
    t=$(cd $WT && /venv/bin/python -m pytest -q -p no:cacheprovider 2>&1 | tail -1)
    fails=$(cd $WT && /venv/bin/python -m pytest -q -p no:cacheprovider 2>&1 | grep '^FAILED' | sed 's/ - .*//' | sort | md5sum | cut -c1-8)
    git -C $WT checkout -q -- pedal
    echo "$id/$k: demo_unpatched=$d0 demo_patched=$d1 tests=[$t] failset=$fails files=$(grep '^+++ b/' $WT/_seed/patch$k.diff | sed 's/+++ b\///' | tr '\n' ' ')"
  done
done
