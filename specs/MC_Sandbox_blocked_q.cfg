SPECIFICATION Spec
CONSTANTS
  EffTokens = {"pa"}
  MaxEff = 1
  Modes = {"normal", "closeOut", "exc", "sysexit", "baseKbd", "syntax", "internalFault", "x:importRaises", "baseImport", "x:importExit"}
  FnModes = {"normal", "exc", "baseCustom"}
  MaxFns = 1
  Depth = 2
  InputOps = {}
  Entries = {"run", "call", "evaluate"}
  TracerStyles = {"none"}
  Threadeds = {FALSE, TRUE}
  Givens = {}
  Blockeds = {"none", "time", "math"}
  Flags = {}
INVARIANT Restored
INVARIANT Contained
INVARIANT NoSpuriousFb
INVARIANT OutputLedger
INVARIANT InputFifo
CONSTRAINT Export
CHECK_DEADLOCK FALSE
