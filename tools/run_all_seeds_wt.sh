#!/bin/bash
# Every kept seeded change against its property's quick check, each in a scratch worktree of /repo (nothing is applied
# to /repo itself).  One lane per property (evidence and replay files are per property); LANES lanes in parallel,
# the timing-sensitive C14 lane runs alone afterwards.  Output: seeded/RESULTS.txt
cd /verif
lane() { p=$1; for d in seeded/$p-*/; do s=$(basename $d); [ -f $d/patch.diff ] || continue; tools/try_seed_wt.sh $s quick | cut -c1-260; done; }
export -f lane
props=$(ls seeded | sed 's/-.*//' | sort -u | grep -v RESULTS | grep -v C14)
echo $props | tr ' ' '\n' | xargs -P ${LANES:-3} -I{} bash -c 'lane {}' > seeded/RESULTS.tmp 2>&1
lane C14 >> seeded/RESULTS.tmp 2>&1
sort seeded/RESULTS.tmp > seeded/RESULTS.txt; rm -f seeded/RESULTS.tmp
grep -c "exit=1" seeded/RESULTS.txt; grep -v "exit=1" seeded/RESULTS.txt
