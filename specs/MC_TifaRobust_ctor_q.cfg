SPECIFICATION Spec
CONSTANTS
  Cells <- CtorCells
  Ops = {"A", "C"}
  MaxOps = 2
  Progs = {"c", "g"}
  Flags = {}
INVARIANT RanIsDistinct
INVARIANT StartsClean
CONSTRAINT Export
CHECK_DEADLOCK FALSE
