"""C07: runtime assertions against specs/Assertions.tla."""
import json

from engine import tlc
from engine.core import shard_map
from engine.tlc import MachineryError


MIXED_LISTS = {"L1a"}          # first element int, another element not a number


def klass(name):
    if ":" in name:
        return name
    if name == "huge":
        return "int"
    if name in ("nan", "inf"):
        return "float"
    if name == "Brepr":
        return "unprintable"
    if name == "errx":
        return "err"
    if name.startswith("DC"):
        return "dataclass"
    if name == "Vobj":
        return "object"
    if name in ("R12", "M12"):
        return "lazy"
    if name in ("S1", "S2", "S12", "Sf", "Sg"):
        return "set"
    if name.startswith("D_"):
        return "dict"
    for pre, k in (("i", "int"), ("b", "bool"), ("f", "float"), ("L", "list"), ("T", "tuple")):
        if name.startswith(pre) and name not in ("abc", "abd", "empty"):
            return k
    return {"none": "none", "err": "err"}.get(name, "str")


def run(prop, tier, seed, ctx):
    ctx.assumptions += ["contract table Holds(A, l, r) of specs/Assertions.tla (Python relation + documented tolerance "
                        "+ string normalisation); proxies are produced by real call() on a student module",
                        "type assertions cover builtin classes, their names, generic aliases (object and string) and the literal forms; "
                        "heterogeneous containers against element-typed expectations are left unspecified (complement law only); "
                        "dataclass assertions are not in the table yet"]
    ctx.cov["rule"] = ("case = (assertion, left value, right value) cell of the table, replayed in the four wrapping "
                       "combinations (both argument orders are separate cells), plus every unit_test outcome sequence; "
                       "non-trivial = operands of different value or class; distinct = distinct cell")
    cfg = "MC_Assertions_q.cfg" if tier == "quick" else "MC_Assertions_t.cfg"
    res = tlc.run("Assertions", cfg, workers=8, timeout=900)
    tlc.require_ok(res, cfg)
    ctx.add_tlc(res, "table + theorems (Complement, EqSymmetric, NeverBothPass, UnitTestCount) " + cfg)
    cases = list(enumerate(res.records))
    mism = shard_map("bind.assertions", "replay_chunk", cases, chunk=300)
    ctx.cov["replayed_cases"] += len(cases)
    ctx.count(len(cases), (json.dumps([r["a"], r["l"], r["r"], r["cases"]]) for _, r in cases if r["l"] != r["r"] or r["kind"] == "unit_test"))
    ctx.sample({"kind": "cell", "case": {k: res.records[7][k] for k in ("a", "l", "r", "verdict", "holds")}})
    ctx.cov["exhaustive"] = True
    # cells that are wrong without any presentation keyword are keyed by the cell, not by the keyword they happened to carry
    plain_bad = {(m["case"]["a"], m["case"]["l"], m["case"]["r"]) for m in mism
                 if m["case"]["kind"] != "unit_test" and not m["observed"].get("keyword")}
    for m in mism:
        c = m["case"]
        if c["kind"] == "unit_test":
            key = "C07|unit_test|%s" % "+".join(sorted(set(c["cases"])))
            what = "unit_test with case outcomes %s: returned %s (expected %s / %d passed)" % (c["cases"], m["observed"], m["expected"], c["passed"])
        else:
            key = "C07|%s|%s|%s|holds=%s" % (c["a"], klass(c["l"]), klass(c["r"]) if c["a"] not in ("is_none", "is_not_none", "true", "false") else "-", m["holds"])
            if m["observed"].get("keyword") and (c["a"], c["l"], c["r"]) not in plain_bad:
                key = "C07|keyword|%s|holds=%s" % (m["observed"]["keyword"], m["holds"])
            if c["a"] in ("type", "not_type") and c["l"] in MIXED_LISTS and c["r"].endswith("list_int"):
                key = "C07|type|mixed-list-typed-by-first-element"
            if c["a"] in ("is_instance", "not_is_instance") and c["r"] in ("t:int", "t:float") and klass(c["l"]) in ("int", "float", "bool"):
                key = "C07|is_instance|int-float-interchangeable"
            what = "assert_%s(%s, %s) with wrapping %s: %s but the relation %s (expected %s); status=%s" % (
                c["a"], c["l"], c["r"], m["wrap"], m["observed"].get("observed"), {"T": "holds", "F": "does not hold", "U": "cannot be evaluated"}.get(m["holds"]),
                m["expected"], m["observed"].get("status"))
        ctx.violation(key, what, m)
    mres = tlc.run("Assertions", "MUT_Assertions_tolerance.cfg", workers=2, timeout=300)
    if "EqSymmetric" not in mres.violated:
        raise MachineryError("mutant tolerance_expected_only did not violate EqSymmetric")
    ctx.notes.append("self-test: order-dependent tolerance violates EqSymmetric")


def replay(prop, rep):
    from bind import assertions as B
    from engine.core import setup_repo_path
    setup_repo_path()
    r = rep["replay"]
    out = B.replay_chunk([(0, r["case"])], None)
    print(json.dumps(out, indent=1, default=repr)[:3000])
    return 1 if out else 0
