------------------------------ MODULE TifaRobust ------------------------------
(***************************************************************************)
(* tifa_analysis as a cache protocol over programs (pedal/tifa/commands.py,*)
(* tifa_visitor.py) -- property C18.                                       *)
(* State: the set of programs analysed on the current report (the per-code *)
(* result cache), the number of analyses that really ran (each attaches    *)
(* its issues to the report exactly once), and the result each program     *)
(* produced the first time it was analysed in this process.                *)
(* Actions: Analyze(p), ClearReport.                                       *)
(* CONTRACT: Analyze never raises; a repeated Analyze(p) on the same       *)
(* report returns the same issues and attaches nothing (Idempotent); after *)
(* ClearReport the same program yields the same issues again               *)
(* (Deterministic); for a program of the introductory subset the analysis  *)
(* completes.  The program dimension is a construct matrix: every          *)
(* (statement kind, expression kind, context) and every documented builtin *)
(* function / method x argument shape occurs as a cell.                    *)
(***************************************************************************)
EXTENDS Integers, Sequences, FiniteSets, TLC, Json
CONSTANTS Cells, Ops, MaxOps, Progs, Flags

VARIABLES cell, cache, ran, hist, chain
vars == <<cell, cache, ran, hist, chain>>
\* programs: "c" = the cell's program, "d" = a fixed other program, "x" = a parsable program whose analysis FAILS
\* ("g" = a program that subscripts the builtin constructors: list[int], dict[str, int], ... -- evaluating the
\* subscript must not leave anything on the process-wide constructor objects)
\* inside the evaluation of a builtin call (`sorted(**opts)`): visit_Call pushes the definition on the recursion-
\* detection stack (definition_chain) and the exception skips the pop.  IMPLEMENTATION-SHAPED part: every analysis
\* that really runs starts by TifaCore.reset(), which re-creates the stack; flag chain_not_reset models a stack
\* created once per instance.  `chain` is what is left on that stack between analyses; an analysis that starts
\* with a non-empty stack reports spurious recursive calls for the builtins backed by the stranded definition.
Init == cell \in Cells /\ cache = {} /\ ran = 0 /\ hist = <<>> /\ chain = {}
Analyze(p) == /\ Len(hist) < MaxOps /\ "A" \in Ops
              /\ cache' = cache \cup {p}
              /\ ran' = IF p \in cache THEN ran ELSE ran + 1
              /\ LET start == IF "chain_not_reset" \in Flags THEN chain ELSE {}      \* reset()
                 IN /\ chain' = IF p \in cache THEN chain ELSE IF p = "x" THEN start \cup {"identity"} ELSE start
                    /\ hist' = Append(hist, [op |-> "analyze", p |-> p, hit |-> p \in cache, ran |-> ran',
                                              clean |-> (p \in cache \/ start = {})])
              /\ UNCHANGED cell
ClearReport == /\ Len(hist) < MaxOps /\ "C" \in Ops /\ hist # <<>>
               /\ cache' = {} /\ ran' = 0
               /\ hist' = Append(hist, [op |-> "clear", p |-> "-", hit |-> FALSE, ran |-> 0, clean |-> TRUE])
               /\ UNCHANGED <<cell, chain>>      \* the Tifa instance (and whatever is stranded in it) survives a clear
Next == (\E p \in Progs : Analyze(p)) \/ ClearReport
Spec == Init /\ [][Next]_vars
\* a cache hit never runs an analysis; the run counter equals the number of distinct programs since the last clear
RanIsDistinct == ran = Cardinality(cache)
\* no analysis ever starts from residue of an earlier (possibly failed) one: its result is a function of the program
StartsClean == \A i \in 1..Len(hist) : hist[i].clean
Export == Len(hist) = MaxOps => PrintT(<<"VP", ToJson([cell |-> cell, hist |-> hist])>>)
=============================================================================
