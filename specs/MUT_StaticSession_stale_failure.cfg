SPECIFICATION Spec
CONSTANTS
  Feats = {"type:str", "lit:5", "ast:For", "call:print", "op:+", "foreign"}
  MaxOcc = 1
  MaxLen = 3
  Flags = {"stale_failure"}
INVARIANT HistoryIndependent
CHECK_DEADLOCK FALSE
