"""Binding of specs/Lifecycle.tla: replay TLC behaviours on the real Feedback / Report classes (C20)."""
import random
import string

TPL = {"orig:P": "P0 {x:name}|{y}", "orig:C": "C0 {y:line}|{x}", "orig:N": "N0 {x}|{y:name}", "o1": "O1 {x:name} at {y:line}", "o2": "O2 {x}",
       "kw": "KW {x:name}!", "kwn": "KN {x:>{w}}|{y:line}|{x:<{w}}.",
       "kwc": "KC {x:shout}|{y:name}",
       # attributes of a field value, among them the names the template machinery uses for itself
       # values that cannot describe themselves
       "kwh": "KH {rec}|{mute}|{x:name}",
       "kws": "KS {x}|{location.line:line}",
       "kwa": "KA {pt.value}|{pt.key:name}|{pt.formatter}|{pt.other}|{pt._hidden}|{fn.__name__:name}|{x}"}


class Point:
    """a field value with attributes (an enum member has .value, a dict item view .key ...)"""
    value, key, formatter, other, _hidden = "pv", "pk", "pf", "po", "ph"


class Record:
    """a dict-backed record: unknown attributes are looked up among the cells (KeyError), and its text names a cell
    that is not there"""
    def __init__(self):
        self.__dict__["cells"] = {"a": 1}

    def __getattr__(self, name):
        return self.__dict__["cells"][name]

    def __str__(self):
        return "Record(%s)" % self.total

    def __repr__(self):
        return "<record of %d cells>" % len(self.__dict__["cells"])


class Mute:
    """neither str() nor repr() work"""
    def __repr__(self):
        raise ValueError("no text for you")
    __str__ = __repr__


def describe(v):
    """what stands in a message for a field without a declared format"""
    try:
        return str(v)
    except Exception:
        try:
            return repr(v)
        except Exception:
            return object.__repr__(v)


def helper_function():
    """a function-valued field ('Do not change {fn.__name__}')"""
TTPL = {"o1": "O1 {name:name} at {location.line:line}", "o2": "O2 {name}", "kw": "KW {name:name}!"}
TITLE = {"orig:P": "Title P", "orig:C": "Title C", "orig:N": None, "o1": "Title one", "o2": "Title two"}


class World:
    """Fresh classes, report and formatters for one behaviour."""

    def __init__(self):
        from pedal.core.feedback import Feedback
        from pedal.core.report import Report
        from pedal.core.formatting import Formatter
        from pedal.tifa import feedbacks as tf

        def condition(self, out=None, **kw):
            if out == "CR":
                raise RuntimeError("condition failed")
            if out == "CX":
                raise SystemExit(3)
            return out in ("T", "MR")
        self.P = type("P", (Feedback,), {"message_template": TPL["orig:P"], "title": TITLE["orig:P"],
                                          "condition": condition, "category": "instructor",
                                          # class-level fields every instance starts from (never the other way round)
                                          "constant_fields": {"konst": "kc"}})
        self.C = type("C", (self.P,), {"message_template": TPL["orig:C"], "title": TITLE["orig:C"]})
        # N's own class body sets title = None, masking the title it would inherit from P
        self.N = type("N", (self.P,), {"message_template": TPL["orig:N"], "title": None})
        # I defines nothing itself: everything is inherited from P
        self.I = type("I", (self.P,), {})
        self.T = tf.initialization_problem
        self.t_orig = {"message_template": self.T.__dict__["message_template"], "title": self.T.__dict__["title"]}
        self.report = Report()
        self.report2 = Report()          # a second Report object alive next to the first (e.g. a preview report)

        class F2(Formatter):
            def name(self, name):
                return "[n:%s]" % name

            def line(self, line_number):
                return "[l:%s]" % line_number

        class F3(Formatter):
            """a formatter that ADDS a format of its own to the inherited list"""
            available = Formatter.available + ["shout"]

            def shout(self, text):
                return str(text).upper() + "!"
        self.F1, self.F2, self.F3 = Formatter, F2, F3
        self.FMT = {"F1": Formatter, "F2": F2, "F3": F3}
        self.objs = []

    def cls(self, c):
        return {"P": self.P, "C": self.C, "N": self.N, "I": self.I, "T": self.T}[c]

    def close(self):
        # put the real tool class back whatever happened (the thing under test is report.clear, not this)
        for k, v in self.t_orig.items():
            setattr(self.T, k, v)
        if "_override_backups" in self.T.__dict__:
            delattr(self.T, "_override_backups")
        for c in (self.P, self.C, self.N, self.I, self.T):
            self.report.overridden_feedbacks.discard(c)

    # ---- concrete values
    def tpl_value(self, c, tok):
        if tok.startswith("orig:"):
            return self.t_orig["message_template"] if c == "T" else TPL[tok]
        return (TTPL if c == "T" else TPL)[tok]

    def title_value(self, c, tok):
        if tok.startswith("orig:"):
            return self.t_orig["title"] if c == "T" else TITLE[tok]
        return TITLE[tok]

    def attr_token(self, c, a):
        cls = self.cls(c)
        v = getattr(cls, "message_template" if a == "template" else "title")
        for tok in (("o1", "o2") if c == "I" else ("orig:" + c, "o1", "o2")):
            if v == (self.tpl_value(c, tok) if a == "template" else self.title_value(c, tok)):
                return tok
        # a value belonging to another class (e.g. restored from the wrong backup table)
        for oc in "PCNT":      # (I has no originals of its own)
            if v == (self.tpl_value(oc, "orig:" + oc) if a == "template" else self.title_value(oc, "orig:" + oc)):
                return "orig:" + oc
        return "?" + repr(v)

    def fields(self, c):
        from pedal.core.location import Location
        if c == "T":
            return {"location": Location(5), "name": "nm"}
        if not hasattr(self, "_hostile"):
            self._hostile = (Record(), Mute())
        return {"x": "vx", "y": 7, "w": 6, "pt": Point(), "fn": helper_function, "rec": self._hostile[0], "mute": self._hostile[1]}

    def expected_message(self, c, m, i):
        """Oracle for MessageDerivation: explicit message, else the template with every field substituted
        through the formatter for its declared format spec."""
        if m["k"] == "explicit":
            return "explicit message %d" % i
        fmt = self.FMT[m["f"]](self.report)
        tpl = self.tpl_value(c, m["t"])
        fields = dict(self.fields(c))
        if c == "T":
            fields["name_message"] = self.objs[i - 1].fields.get("name_message")
        if m["t"] == "kws":
            from pedal.core.location import Location
            fields["location"] = Location(i)        # created with location=<its own index>
        out = []
        for lit, field, spec, conv in string.Formatter().parse(tpl):
            out.append(lit)
            if field is None:
                continue
            parts = field.split(".")
            v = fields[parts[0]]
            for p in parts[1:]:
                v = getattr(v, p)
            if spec and "{" in spec:
                spec = spec.format(**fields)        # str.format expands replacement fields nested in the spec
            if spec in fmt.available:
                out.append(format(getattr(fmt, spec)(v), ""))
            else:
                out.append(format(describe(v), spec or ""))
        return "".join(out)

    # ---- actions
    def do(self, a):
        r = self.report
        raised = False
        try:
            op = a["op"]
            if op == "create":
                c, mk, out = a["cls"], a["mk"], a["out"]
                i = len(self.objs) + 1
                kw = {"report": r}
                if mk == "explicit":
                    kw["message"] = "explicit message %d" % i
                elif mk == "kwtemplate":
                    kw["message_template"] = (TTPL if c == "T" else TPL)["kw"]
                elif mk == "kwnested":
                    kw["message_template"] = TPL["kwn"]
                elif mk == "kwcustom":
                    kw["message_template"] = TPL["kwc"]
                elif mk == "kwattr":
                    kw["message_template"] = TPL["kwa"]
                elif mk == "kwhostile":
                    kw["message_template"] = TPL["kwh"]
                if a["delay"]:
                    kw["delay_condition"] = True
                if a.get("par") == "str":
                    kw["parent"] = "sec1"
                if c == "T":
                    if out == "MR":   # only reachable with a keyword template: name a field that is not there
                        kw["message_template"] = "KW {missing:name}!"
                    kw["activate"] = out in ("T", "MR")
                    args = ()
                    kw.update(self.fields("T"))
                else:
                    args = (out,)
                    f = self.fields(c)
                    if out == "MR":
                        f = {}      # template fields missing -> KeyError while rendering the message
                    if mk == "kwshared" and out != "MR":
                        # one dictionary object for every feedback of this behaviour, and a location of its own
                        if not hasattr(self, "_shared_fields"):
                            self._shared_fields = dict(f)
                        kw["message_template"] = TPL["kws"]
                        kw["fields"] = self._shared_fields
                        kw["location"] = i
                        f = {}
                    elif mk == "kwshared":
                        kw["message_template"] = TPL["kws"]
                    kw.update(f)
                cls = self.cls(c)
                holder = []
                orig_init = None
                try:
                    obj = cls.__new__(cls)
                    self.objs.append(obj)
                    obj.__init__(*args, **kw)
                except (Exception, SystemExit):
                    raised = True
            elif op == "handle":
                try:
                    self.objs[a["i"] - 1]._handle_condition()
                except (Exception, SystemExit):
                    raised = True
            elif op == "override":
                key = "message_template" if a["attr"] == "template" else "title"
                val = self.tpl_value(a["cls"], a["v"]) if a["attr"] == "template" else self.title_value(a["cls"], a["v"])
                self.cls(a["cls"]).override(report=r, **{key: val})
            elif op == "override_bad":
                key = "message_template" if a["attr"] == "template" else "title"
                val = self.tpl_value(a["cls"], a["v"]) if a["attr"] == "template" else self.title_value(a["cls"], a["v"])
                try:
                    self.cls(a["cls"]).override(report=r, **{key: val, "no_such_field_at_all": 1})
                except AttributeError:
                    raised = True          # documented: unknown fields are an AttributeError
            elif op == "override2":
                key = "message_template" if a["attr"] == "template" else "title"
                val = self.tpl_value(a["cls"], a["v"]) if a["attr"] == "template" else self.title_value(a["cls"], a["v"])
                self.cls(a["cls"]).override(report=self.report2, **{key: val})
            elif op == "clear2":
                self.report2.clear()
            elif op == "clear":
                r.clear()
            elif op in ("context_clear", "context_keep"):
                from pedal.core.commands import contextualize_report
                contextualize_report("a = 0", clear=(op == "context_clear"), report=r)
            elif op == "setfmt":
                r.set_formatter(self.FMT[a["v"]](r))
            else:
                raise ValueError(op)
        except Exception as e:   # a public call that must not raise did
            return {"crash": "%s: %s" % (type(e).__name__, e)}
        return {"raised": raised}

    def project(self, raised, spec_objs):
        r = self.report
        ids = {id(o): i for i, o in enumerate(self.objs, 1)}
        objs = []
        for i, o in enumerate(self.objs, 1):
            st = getattr(o, "_status", "unconstructed")
            rec = {"status": st, "truth": bool(getattr(o, "_met_condition", False)) and bool(o)}
            objs.append(rec)
        return {"active": [ids.get(id(o), -1) for o in r.feedback],
                "ignored": [ids.get(id(o), -1) for o in r.ignored_feedback],
                "objs": objs,
                "attr": {c: {a: self.attr_token(c, a) for a in ("template", "title")} for c in "PCNIT"},
                "raised": raised, "fmt": [k for k, c in self.FMT.items() if type(r.format) is c][0]}


def compare(w, proj, exp, classes_of):
    bad = []
    for k in ("active", "ignored", "raised", "fmt"):
        if proj[k] != exp[k]:
            bad.append(k)
    for c in exp["attr"]:
        if proj["attr"][c] != exp["attr"][c]:
            bad.append("attr")
            break
    for i, eo in enumerate(exp["objs"], 1):
        po = proj["objs"][i - 1] if i <= len(proj["objs"]) else None
        if po is None or po["status"] != eo["status"]:
            bad.append("status")
            continue
        if eo["status"] != "delayed" and po["truth"] != eo["truth"]:
            bad.append("truth")
        if eo["status"] == "active":
            want = w.expected_message(classes_of[i - 1], eo["msg"], i)
            got = w.objs[i - 1].message
            if want != got:
                bad.append("message")
    return sorted(set(bad))


def replay_one(hist):
    w = World()
    try:
        classes_of = []
        for step, h in enumerate(hist, 1):
            a = h["a"]
            if a["op"] == "create":
                classes_of.append(a["cls"])
            res = w.do(a)
            if "crash" in res:
                return {"step": step, "fields": ["crash"], "observed": res, "expected": h["s"], "action": a}
            proj = w.project(res["raised"], h["s"]["objs"])
            bad = compare(w, proj, h["s"], classes_of)
            if bad:
                msgs = [getattr(o, "message", None) for o in w.objs]
                return {"step": step, "fields": bad, "observed": proj, "expected": h["s"], "action": a,
                        "messages": msgs}
        return None
    finally:
        w.close()


def replay_chunk(cases, extra):
    from engine.core import setup_repo_path
    setup_repo_path()
    out = []
    for idx, rec in cases:
        m = replay_one(rec["hist"])
        if m:
            m["hist"] = [h["a"] for h in rec["hist"]]
            out.append(m)
    return out


# ------------------------------------------------------------------ the core commands (specs/CoreCommands.tla)
def commands_chunk(cases, extra):
    from engine.core import setup_repo_path
    setup_repo_path()
    from pedal.core.report import Report
    from pedal.core.formatting import HtmlFormatter
    from pedal.core import commands as K
    from pedal.core.feedback import Feedback
    out = []
    for idx, rec in cases:
        c, exp = rec["cell"], rec["exp"]
        r = Report()
        if c["fmt"] == "html":
            r.set_formatter(HtmlFormatter(r))
        items = ["item %d of the call" % k for k in range(1, c["n"] + 1)]
        text = "the instructor's own words"
        kw = {"report": r}
        if c["mode"] == "message":
            kw["message"] = text
            want_one = text
        else:
            kw["message_template"] = "about {thing} and {count}"
            kw["thing"], kw["count"] = "apples", 3
            want_one = "about apples and 3"
        obs = {"raised": None}
        ret = None
        try:
            if c["cmd"] == "log":
                ret = K.log(*items, report=r)
            elif c["cmd"] == "debug":
                ret = K.debug(*items, report=r)
            elif c["cmd"] == "give_partial":
                ret = K.give_partial(0.5, **kw)
            elif c["cmd"] == "feedback":
                ret = K.feedback(**kw)
            else:
                ret = getattr(K, c["cmd"])(**kw)
        except Exception as e:
            obs["raised"] = "%s: %s" % (type(e).__name__, e)
        objs = list(r.feedback)
        obs["count_active"], obs["count_ignored"] = len(r.feedback), len(r.ignored_feedback)
        obs["messages"] = [f.message for f in objs]
        obs["truth"] = bool(ret) if isinstance(ret, Feedback) else None
        want = []
        for k, says in enumerate(exp["says"]):
            want.append(items[k] if says == "item" else " ".join(items) if says == "joined" else want_one)
        bad = []
        if obs["raised"]:
            bad.append("raised")
        if obs["count_active"] != exp["count"] or obs["count_ignored"] != 0:
            bad.append("recorded-once")
        elif obs["messages"] != want:
            bad.append("message")
        if obs["truth"] is False:
            bad.append("truth")
        if bad:
            out.append({"cell": c, "fields": bad, "observed": obs, "expected_messages": want})
    return out
