SPECIFICATION Spec
CONSTANTS
  EffTokens = {"pa"}
  MaxEff = 1
  Modes = {"normal", "exc", "excBrokenStr", "excBrokenRepr", "exit", "sysexit", "raiseSysExit", "recursion", "syntax", "nul", "blockedEval", "blockedOpenW", "importPedal", "baseKbd", "baseGen", "baseCustom", "internalFault"}
  FnModes = {"normal", "exc", "excBrokenStr", "sysexit", "raiseSysExit", "recursion", "blockedEval", "baseKbd", "baseCustom", "internalFault"}
  MaxFns = 1
  Depth = 3
  InputOps = {}
  Entries = {"run", "call", "evaluate"}
  TracerStyles = {"none"}
  Threadeds = {FALSE}
  Givens = {}
  Blockeds = {"none"}
  Flags = {"no_base_handler"}
INVARIANT Restored
INVARIANT Contained
INVARIANT NoSpuriousFb
INVARIANT OutputLedger
INVARIANT InputFifo
CHECK_DEADLOCK FALSE
