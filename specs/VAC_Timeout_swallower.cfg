SPECIFICATION Spec
CONSTANTS
  Design = "grader_bookkeeping"
  Kind = "swallower"
  MaxSteps = 2
  defaultInitValue = defaultInitValue
INVARIANT QuietReachable
CHECK_DEADLOCK FALSE
