SPECIFICATION TSpec
CONSTANTS
  Classes = {}
  MaxCalls = 0
  Offsets = {}
CONSTRAINT Progress
POSTCONDITION Post
CHECK_DEADLOCK FALSE
