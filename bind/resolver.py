"""Binding of specs/Resolver.tla to pedal's Report / Feedback / resolvers.

concretise: abstract feedback record -> real Feedback construction (keyword style or generated subclass)
project:    FinalFeedback -> [shown, correct, score]  (shown = creation index of the feedback whose
            title/message/label were delivered, 0 = default result, -2 = delivered text matches no feedback,
            -9 = resolve raised)
"""
import random

VAL = {"neg": -1, "zero": 0, "pos": 1, "none": None}
COR = {"T": True, "F": False, "N": None}
SCORE = {"none": None, "+10": "+10", "-5": "-5", "50%": "50%", "0.25": 0.25, "10": 10, "+20%": "+20%",
         "-10%": "-10%", "1": 1, "-0.5": -0.5, "12.5%": "12.5%", "0.125": 0.125, "+37.5%": "+37.5%", "-12.5%": "-12.5%", "0.625": 0.625}


FM = {"f1": {"k": "1", "j": "1"}, "f2": {"k": "2", "j": "1"}, "f3": {"k": "1", "j": "2"},
      "k1": {"k": "1"}, "j1": {"j": "1"}, "k2": {"k": "2"}}


def fm(tok):
    """Concrete field dictionary of a token.  The values of key `j` are source LOCATIONS (lines 3 and 7) - the kind of
    value tool feedback carries in its fields and instructors name when suppressing one particular report."""
    from pedal.core.location import Location
    d = dict(FM[tok])
    if "j" in d:
        d["j"] = Location(3) if d["j"] == "1" else Location(7)
    return d


def build(fbs_abs, supp_abs, style=0):
    from pedal.core.report import Report
    from pedal.core.feedback import Feedback
    report = Report()
    objs = []
    for s in supp_abs:
        apply_supp(report, s)
    for i, f in enumerate(fbs_abs, 1):
        objs.append(make_feedback(report, f, i, style))
    return report, objs


def apply_supp(report, s):
    k = s["k"]
    if k == "cat":
        report.suppress(s["cat"])
    elif k == "catf":
        report.suppress(s["cat"], fields=fm(s["fld"]))
    elif k == "catlabel":
        report.suppress(s["cat"], s["label"])
    elif k == "catlabelf":
        report.suppress(s["cat"], s["label"], fm(s["fld"]))
    elif k == "label":
        report.suppress(label=s["label"])
    elif k == "labelf":
        report.suppress(label=s["label"], fields=fm(s["fld"]))
    else:
        raise ValueError(k)


def score_value(f):
    if "raw_score" in f:
        return f["raw_score"]
    return SCORE[f["score"]]


def make_feedback(report, f, i, style=0, parent=None):
    from pedal.core.feedback import Feedback
    kw = dict(label=f["label"], category=None if f["cat"] == "none" else f["cat"], priority=None if f["prio"] == "none" else f["prio"],
              kind=f["kind"], muted=f["muted"], unscored=f["unscored"], correct=COR[f["correct"]],
              valence=VAL[f["valence"]], score=score_value(f), title="t%d" % i,
              message="" if f.get("msg") == "empty" else "m%d" % i)   # the empty string is a message too
    if f["els"]:
        kw["else_message"] = "e%d" % i
    if parent is not None:
        kw["parent"] = parent
    fields = fm(f["flds"])
    if style % 3 == 2 and f["valence"] != "none" and f["kind"] != "none":
        # a feedback function in the style of gently()/explain(): the CLASS has its own defaults (negative valence, a kind,
        # a priority) and the call states every attribute explicitly - the explicit value wins, also when it is 0
        base = type("Opinionated", (Feedback,), {"valence": -1, "kind": "Mistake", "muted": True, "unscored": True})
        return base(fields=fields, activate=f["trig"], report=report, **kw)
    if style % 2 == 0:
        return Feedback(fields=fields, activate=f["trig"], report=report, **kw)
    # generated instructor subclass: attributes on the class, custom condition
    attrs = {k: v for k, v in kw.items() if v is not None and k not in ("label",)}
    trig = f["trig"]
    attrs["condition"] = lambda self: trig
    cls = type(f["label"], (Feedback,), attrs)   # label defaults to the class name
    return cls(fields=fields, report=report)


def project(final, objs):
    if final is None:
        return {"shown": -9, "correct": False, "score": 0}
    shown = -2
    if final.label == "set_correct_no_errors" and final.title in ("Complete", "No Errors"):
        shown = 0
    else:
        for i, o in enumerate(objs, 1):
            if final.message == o.message and final.title == (o.title or o.label) and final.label == o.label:
                shown = i
                break
    try:
        score = int(round(final.score * 100))
    except Exception:
        score = -99999
    return {"shown": shown, "correct": bool(final.correct) if final.correct in (True, False) else False,
            "score": score, "raw_correct": repr(final.correct)}


def observe(report, objs, which="simple"):
    from pedal.resolvers import simple, full, sectional
    try:
        if which == "sectional":
            finals = sectional.resolve(report=report)
            # every generated feedback has the same parent (no group): one section, or none when nothing triggered
            final = finals.get(None) if finals else None
            if final is None:
                return {"shown": 0, "correct": True, "score": 100, "sectional_empty": True}
        else:
            final = (simple if which == "simple" else full).resolve(report=report)
    except Exception as e:  # resolving must never raise (C01)
        return {"shown": -9, "correct": False, "score": 0, "error": "%s: %s" % (type(e).__name__, e)}
    return project(final, objs)


def grouped_chunk(cases, extra):
    """Sectional resolver with INTERLEAVED groups.  cases: (index, record, partner record with the same suppressions).
    The feedback objects of the two exported reports are created alternately, each report under its own parent; every
    group must resolve exactly like its report resolved on its own (the specification's exported answer)."""
    from engine.core import setup_repo_path
    setup_repo_path()
    from pedal.core.report import Report
    from pedal.resolvers import sectional
    out = []
    for idx, rec, other in cases:
        report = Report()
        for s_ in rec["supp"]:
            apply_supp(report, s_)
        members = {"secA": [], "secB": []}
        plan = []
        for i in range(max(len(rec["fbs"]), len(other["fbs"]))):
            if i < len(rec["fbs"]):
                plan.append(("secA", rec["fbs"][i]))
            if i < len(other["fbs"]):
                plan.append(("secB", other["fbs"][i]))
        for n, (g, f) in enumerate(plan, 1):
            members[g].append(make_feedback(report, f, n, style=idx + n, parent=g))
        try:
            finals = sectional.resolve(report=report)
        except Exception as e:
            out.append({"case": rec, "partner": other, "resolver": "sectional-groups", "fields": ["shown"], "style": idx % 2, "expected": rec["exp"],
                        "observed": {"error": "%s: %s" % (type(e).__name__, e), "shown": -9, "correct": False, "score": 0}})
            continue
        for g, r in (("secA", rec), ("secB", other)):
            final = finals.get(g)
            # a group none of whose feedback was triggered does not appear at all
            obs = {"shown": 0, "correct": True, "score": 100} if final is None else project(final, members[g])
            bad = [k for k in ("shown", "correct") if obs[k] != r["exp"][k]]
            if bad:
                out.append({"case": r, "partner": other if r is rec else rec, "resolver": "sectional-groups", "group": g, "observed": obs,
                            "expected": r["exp"], "fields": bad, "style": idx % 2})
    return out


def replay_chunk(cases, extra):
    """cases: list of (index, record) from the TLC export; returns mismatches."""
    from engine.core import setup_repo_path
    setup_repo_path()
    out = []
    for idx, rec in cases:
        for which in ("simple", "full", "sectional"):
            report, objs = build(rec["fbs"], rec["supp"], style=idx)
            obs = observe(report, objs, which)
            exp = rec["exp"]
            # the sectional resolver only sees triggered feedback, so its score is not the documented sum
            keys = ("shown", "correct") if which == "sectional" else ("shown", "correct", "score")
            bad = [k for k in keys if obs[k] != exp[k]]
            if bad:
                out.append({"case": rec, "resolver": which, "observed": obs, "expected": exp, "fields": bad,
                            "style": idx % 2})
    return out


# ------------------------------------------------------------------ code -> spec traces
CATS = ["none", "syntax", "mistakes", "instructor", "algorithmic", "runtime", "student", "specification", "positive",
        "instructions", "uncategorized", "style", "system", "complete"]
PRIOS = ["none", "none", "none", "high", "medium", "low", "highest", "lowest", "syntax", "runtime", "student",
         "positive", "instructions", "parser", "verifier", "analyzer", "instructor", "mistakes"]


def random_feedback(rng, frac=False):
    f = {"cat": rng.choice(CATS), "prio": rng.choice(PRIOS), "trig": rng.random() < 0.7,
         "muted": rng.random() < 0.2, "kind": rng.choice(["Mistake", "Mistake", "Compliment", "Instructional", "Hint"]),
         "els": False, "label": rng.choice(["a", "b", "c", "B"]), "flds": rng.choice(["f1", "f2", "f3"]),
         "correct": rng.choice(["T", "F", "N", "N"]), "valence": rng.choice(["neg", "neg", "zero", "pos", "none"]),
         "score": "none", "unscored": rng.random() < 0.15, "msg": "empty" if rng.random() < 0.15 else "text"}
    f["els"] = rng.random() < 0.3          # (carried by triggered feedback too, where it must not matter)
    r = rng.random()
    if r < 0.6:
        n = rng.randint(0, 40)
        # a history either uses scores that are not whole percents (eighths: exactly representable, so the float sum
        # is exact and the tie rule of the final rounding is well defined) together with integers, or none of them
        form = rng.choice(["+N", "-N", "int", "negint", "eighth", "eighth%", "eighth", "eighth%"] if frac else
                          ["+N", "-N", "N%", "+N%", "-N%", "int", "float", "negint", "tiny"])
        if form == "+N":
            f["raw_score"], f["centi"] = "+%d" % n, n * 100
        elif form == "-N":
            f["raw_score"], f["centi"] = "-%d" % n, -n * 100
        elif form == "N%":
            f["raw_score"], f["centi"] = "%d%%" % n, n
        elif form == "+N%":
            f["raw_score"], f["centi"] = "+%d%%" % n, n
        elif form == "-N%":
            f["raw_score"], f["centi"] = "-%d%%" % n, -n
        elif form == "int":
            f["raw_score"], f["centi"] = n, n * 100
        elif form == "negint":
            f["raw_score"], f["centi"] = -n, -n * 100
        elif form == "tiny":          # a float whose str() uses exponent notation; far below the rounding step
            f["raw_score"], f["centi"] = rng.choice([1e-05, 2.5e-07]), 0
        elif form == "eighth":        # not a whole number of percent; exactly representable, so sums are exact
            k = rng.choice([1, 3, 5, 7, 9])
            f["raw_score"], f["centi"], f["milli"] = k / 8, 0, k * 125
        elif form == "eighth%":
            k = rng.choice([1, 3, 5, 7])
            sign = rng.choice(["", "+", "-"])
            f["raw_score"], f["centi"], f["milli"] = "%s%s%%" % (sign, k * 12.5), 0, (-1 if sign == "-" else 1) * k * 125
        else:
            q = rng.choice([0.25, 0.5, 0.75, 0.1, 0.05, 1.5])
            f["raw_score"], f["centi"] = q, int(round(q * 100))
        f["score"] = "raw"
    return f


def random_supp(rng):
    k = rng.choice(["cat", "catlabel", "catlabelf", "label", "labelf", "catf"])
    return {"k": k, "cat": rng.choice(CATS[1:7]) if k.startswith("cat") else "-",
            "label": rng.choice(["a", "b", "c", "B"]) if k != "cat" else "-",
            "fld": rng.choice(["f1", "f2", "f3", "k1", "j1", "k2"]) if k.endswith("f") else "-"}


def record_chunk(seeds, extra):
    """Drive the real API along random histories; log one trace per history (events with observed results)."""
    from engine.core import setup_repo_path
    setup_repo_path()
    from pedal.core.report import Report
    traces = []
    for seed in seeds:
        rng = random.Random(seed)
        report = Report()
        objs = []
        ev = []
        errors = []
        frac = rng.random() < 0.25
        for _ in range(rng.randint(1, 9)):
            r = rng.random()
            if r < 0.6 or not objs:
                f = random_feedback(rng, frac)
                objs.append(make_feedback(report, f, len(objs) + 1, style=rng.randint(0, 2)))
                ev.append({"e": "add", "f": {k: v for k, v in f.items() if k != "raw_score"}})
            elif r < 0.8:
                s = random_supp(rng)
                apply_supp(report, s)
                ev.append({"e": "supp", "s": s})
            else:
                obs = observe(report, objs, rng.choice(["simple", "full"]))
                if obs.get("error"):
                    errors.append(obs["error"])
                ev.append({"e": "resolve", "obs": {k: obs[k] for k in ("shown", "correct", "score")}})
        obs = observe(report, objs, "simple")
        if obs.get("error"):
            errors.append(obs["error"])
        ev.append({"e": "resolve", "obs": {k: obs[k] for k in ("shown", "correct", "score")}})
        traces.append({"seed": seed, "events": ev, "errors": errors})
    return traces
