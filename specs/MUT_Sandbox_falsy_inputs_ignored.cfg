SPECIFICATION Spec
CONSTANTS
  EffTokens = {"in"}
  MaxEff = 2
  Modes = {"normal"}
  FnModes = {"normal"}
  MaxFns = 1
  Depth = 3
  InputOps = {"set_input", "clear_input"}
  Entries = {"run", "call"}
  TracerStyles = {"none"}
  Threadeds = {FALSE}
  Givens = {"empty", "one", "blank"}
  Blockeds = {"none"}
  Flags = {"falsy_inputs_ignored"}
INVARIANT InputFifo
CHECK_DEADLOCK FALSE
