SPECIFICATION Spec
CONSTANTS
  Cats = {"runtime", "syntax"}
  Prios = {"none"}
  Trigs = {FALSE, TRUE}
  Muteds = {FALSE}
  Kinds = {"Mistake"}
  Elses = {FALSE}
  Labels = {"a", "b"}
  Flds = {"f1", "f2"}
  Corrects = {"F"}
  Valences = {"neg", "pos"}
  Scores = {"0.25"}
  Unscoreds = {FALSE}
  Msgs = {"text"}
  SuppU <- SuppCatF
  MaxFb = 2
  MaxSupp = 2
  Variant = "impl"
INVARIANT ShownIsBest
INVARIANT DefaultIffNone
INVARIANT CorrectIff
INVARIANT ScoreIs
INVARIANT NoCorrectWithVisibleNegative
INVARIANT RankAgrees
CONSTRAINT Export
CHECK_DEADLOCK FALSE
