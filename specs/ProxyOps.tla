------------------------------ MODULE ProxyOps ------------------------------
(***************************************************************************)
(* The result proxy (pedal/sandbox/result.py, SandboxResult).              *)
(* State: a chain of operations applied to a (proxy, shadow) pair, where   *)
(* the shadow is the real value.  CPython's own outcome of the operation   *)
(* on the unwrapped values is a logged environment fact (`real`); the      *)
(* contract says what the proxied operation must then do:                  *)
(*   real = ok  => proxied ok, equal result, nothing written to stdout,    *)
(*                 result is not the NotImplemented sentinel               *)
(*   real = err => proxied err                                             *)
(* The exhaustive part enumerates every cell                               *)
(*   operation x placement x operand class x operand class;                *)
(* chains (the result becomes the new pair) are validated as traces.       *)
(***************************************************************************)
EXTENDS Integers, Sequences, FiniteSets, TLC, Json
CONSTANTS BinOps, UnOps, Classes, MaxChain

Placements(op) == IF op \in BinOps THEN {"left", "right", "both"} ELSE {"unary"}
Cells == {[op |-> op, place |-> pl, a |-> a, b |-> b] :
            op \in BinOps, pl \in {"left", "right", "both"}, a \in Classes, b \in Classes}
         \cup {[op |-> op, place |-> "unary", a |-> a, b |-> "-"] : op \in UnOps, a \in Classes}

\* the contract on one observed step
StepOk(ev) == /\ ev.real = "ok" => (ev.prox = "ok" /\ ev.equal /\ ~ev.notimpl)
              /\ ev.real = "err" => ev.prox = "err"
              /\ ev.out = 0 /\ ~ev.notimpl
FailMask(ev) == (IF ev.real = "ok" /\ ev.prox # "ok" THEN 1 ELSE 0)
              + (IF ev.real = "ok" /\ ev.prox = "ok" /\ ~ev.equal THEN 2 ELSE 0)
              + (IF ev.notimpl THEN 4 ELSE 0)
              + (IF ev.out # 0 THEN 8 ELSE 0)
              + (IF ev.real = "err" /\ ev.prox # "err" THEN 16 ELSE 0)

VARIABLES cell, chain
vars == <<cell, chain>>
Init == cell \in Cells /\ chain = 0
\* a chain step keeps the pair in lock step as long as the contract held
Apply == chain < MaxChain /\ chain' = chain + 1 /\ UNCHANGED cell
Spec == Init /\ [][Apply]_vars
TypeOK == cell.place \in Placements(cell.op)
Export == chain = 0 => PrintT(<<"VP", ToJson(cell)>>)
=============================================================================
