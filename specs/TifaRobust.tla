------------------------------ MODULE TifaRobust ------------------------------
(***************************************************************************)
(* tifa_analysis as a cache protocol over programs (pedal/tifa/commands.py,*)
(* tifa_visitor.py) -- property C18.                                       *)
(* State: the set of programs analysed on the current report (the per-code *)
(* result cache), the number of analyses that really ran (each attaches    *)
(* its issues to the report exactly once), and the result each program     *)
(* produced the first time it was analysed in this process.                *)
(* Actions: Analyze(p), ClearReport.                                       *)
(* CONTRACT: Analyze never raises; a repeated Analyze(p) on the same       *)
(* report returns the same issues and attaches nothing (Idempotent); after *)
(* ClearReport the same program yields the same issues again               *)
(* (Deterministic); for a program of the introductory subset the analysis  *)
(* completes.  The program dimension is a construct matrix: every          *)
(* (statement kind, expression kind, context) and every documented builtin *)
(* function / method x argument shape occurs as a cell.                    *)
(***************************************************************************)
EXTENDS Integers, Sequences, FiniteSets, TLC, Json
CONSTANTS Cells, Ops, MaxOps

VARIABLES cell, cache, ran, hist
vars == <<cell, cache, ran, hist>>
\* programs: "c" = the cell's program, "d" = a fixed other program
Init == cell \in Cells /\ cache = {} /\ ran = 0 /\ hist = <<>>
Analyze(p) == /\ Len(hist) < MaxOps /\ "A" \in Ops
              /\ cache' = cache \cup {p}
              /\ ran' = IF p \in cache THEN ran ELSE ran + 1
              /\ hist' = Append(hist, [op |-> "analyze", p |-> p, hit |-> p \in cache, ran |-> ran'])
              /\ UNCHANGED cell
ClearReport == /\ Len(hist) < MaxOps /\ "C" \in Ops /\ hist # <<>>
               /\ cache' = {} /\ ran' = 0
               /\ hist' = Append(hist, [op |-> "clear", p |-> "-", hit |-> FALSE, ran |-> 0])
               /\ UNCHANGED cell
Next == Analyze("c") \/ Analyze("d") \/ ClearReport
Spec == Init /\ [][Next]_vars
\* a cache hit never runs an analysis; the run counter equals the number of distinct programs since the last clear
RanIsDistinct == ran = Cardinality(cache)
Export == Len(hist) = MaxOps => PrintT(<<"VP", ToJson([cell |-> cell, hist |-> hist])>>)
=============================================================================
