---------------------------- MODULE MC_Grading ----------------------------
EXTENDS Grading
AllScripts == {"plain", "override", "override_twice", "suppress", "crashing", "formatter", "mocks", "sections",
               "pools", "partial", "groups", "tifa_types", "classhook", "raiser_a", "raiser_b", "qpool", "plain_notifa", "cover", "vplmax@vpl", "vplplain@vpl", "greeter", "gsmax@gs", "gsplain@gs", "verify_native"}
QuickScripts == {"plain", "override_twice", "suppress", "crashing", "sections", "pools", "mocks"}
\* what each script of bind/grading.py dirties
W == [s \in AllScripts |->
        CASE s = "plain" -> {"feedback", "tooldata"}
          [] s = "override" -> {"feedback", "tooldata", "overrides"}
          [] s = "override_twice" -> {"feedback", "tooldata", "overrides"}
          [] s = "suppress" -> {"feedback", "tooldata", "suppressions"}
          [] s = "crashing" -> {"feedback", "tooldata", "suppressions", "overrides", "formatter", "sandbox_mocks", "tracer"}
          [] s = "formatter" -> {"feedback", "tooldata", "formatter"}
          [] s \in {"mocks", "raiser_a", "raiser_b"} -> {"feedback", "tooldata", "sandbox_mocks"}
          [] s = "sections" -> {"feedback", "tooldata", "sections", "hooks"}
          [] s = "pools" -> {"feedback", "tooldata", "pools"}
          [] s = "vplmax@vpl" -> {"feedback", "tooldata", "formatter", "vpl_maximum"}   \* set_maximum_score(100)
          [] s = "vplplain@vpl" -> {"feedback", "tooldata", "formatter"}
          [] s = "gsmax@gs" -> {"feedback", "tooldata", "formatter", "gradescope_maximum"}   \* the GradeScope environment's set_maximum_score(50)
          [] s = "gsplain@gs" -> {"feedback", "tooldata", "formatter"}
          [] s = "cover" -> {"feedback", "tooldata", "tracer", "coverage_data"}   \* what the coverage tracer measured
          [] s = "qpool" -> {"feedback", "tooldata", "question_pools"}      \* the running count of question pools
          [] s = "partial" -> {"feedback", "tooldata", "hiddens"}
          [] s = "groups" -> {"feedback", "tooldata"}
          [] s = "tifa_types" -> {"feedback", "tooldata", "builtin_modules"}
          [] OTHER -> {"feedback", "tooldata"}]
AllSubs == {"ok", "crash", "mathmut", "syntax", "unused", "parts", "mathy", "attrassign", "attrlit", "methodcall", "pltassign", "pltcall", "uselen", "realmut", "modset", "modsetT", "modget", "branch_if", "branch_else", "greetA", "greetB", "turtleclear", "turtlestar"}
\* submissions whose analysis writes / reads the method tables of TIFA's value types
\* ... and submissions that write / read TIFA's types of the builtin MODULES (attribute assignment on an imported module)
SW == [s \in AllSubs |-> IF s \in {"attrassign", "attrlit"} THEN {"type_tables"}
                          ELSE IF s \in {"pltassign", "mathmut"} THEN {"builtin_modules"}
                          \* ... and a submission that, when EXECUTED, assigns to an attribute of the real standard module
                          \* it imported (the sandbox hands out the interpreter's own module objects)
                          ELSE IF s \in {"realmut", "modsetT"} THEN {"real_modules"}      \* (modsetT: through TIFA's own import of the module)
                          \* ... and one that imports a standard module nothing has loaded yet and changes its module-level state
                          ELSE IF s = "modset" THEN {"fresh_modules"}
                          \* ... and one whose second FILE is imported while the instructor calls a method of a returned object
                          ELSE IF s = "greetA" THEN {"student_modules"}
                          \* ... and one that empties a list pedal's own mock of the turtle module handed out
                          ELSE IF s = "turtleclear" THEN {"mock_tables"} ELSE {}]
SR == [s \in AllSubs |-> IF s = "methodcall" THEN {"type_tables"}
                          ELSE IF s = "pltcall" THEN {"builtin_modules"}
                          ELSE IF s = "mathy" THEN {"builtin_modules", "real_modules"}
                          ELSE IF s = "modget" THEN {"fresh_modules", "real_modules"}
                          ELSE IF s = "greetB" THEN {"student_modules"}
                          ELSE IF s = "turtlestar" THEN {"mock_tables"} ELSE {}]
\* every grading resolves and renders feedback, so it reads everything that influences the result
R == [s \in AllScripts |-> Slots \ {"class_hooks"}]
\* Report.clear(): feedback lists, suppressions, hiddens, tool data (hence the sandbox instance with its mocks and
\* tracer, the Source tool's sections), hooks, formatter, overridden class attributes, and (since the repair) pools;
\* TIFA's reset rebuilds the builtin module types.
CodeClearResets == {"feedback", "suppressions", "hiddens", "hooks", "tooldata", "formatter", "overrides",
                    "sandbox_mocks", "tracer", "sections", "builtin_modules", "pools",
                    "type_tables", "question_pools",
                    "fresh_modules",
                    "coverage_data",
                    "vpl_maximum", "gradescope_maximum", "mock_tables",
                    "student_modules"}    \* a student file is only ever a module inside the execution that imported it        \* setting up the VPL environment starts from the default maximum again     \* every execution ends by putting the module table back: what student code imported first is unloaded     \* every type VALUE copies its class' method table (Type.__init__), so nothing outlives the analysis
PinnedClearResets == CodeClearResets \ {"pools", "question_pools"}
SharedTables == CodeClearResets \ {"type_tables"}
ModulesStay == CodeClearResets \ {"fresh_modules"}
StudentModulesStay == CodeClearResets \ {"student_modules"}
VplMaximumStays == CodeClearResets \ {"vpl_maximum"}
MockTablesStay == CodeClearResets \ {"mock_tables"}     \* the mock hands out its own class-level table
GsMaximumStays == CodeClearResets \ {"gradescope_maximum"}
CoverageAccumulates == CodeClearResets \ {"coverage_data"}        \* one measurement object for the whole process
=============================================================================
