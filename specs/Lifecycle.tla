------------------------------ MODULE Lifecycle ------------------------------
(***************************************************************************)
(* Feedback lifecycle of pedal (pedal/core/feedback.py, report.py,         *)
(* formatting.py): creating feedback objects, delayed conditions, class    *)
(* attribute overrides, clear / contextualize, formatter changes.          *)
(* One action per public call; `hist` records the call and the projected   *)
(* state after it so that every behaviour can be replayed on the code.     *)
(*                                                                         *)
(* Implementation-shaped parts: _handle_condition (try / except / attach / *)
(* re-raise) and the override backup table (_override_backups is a class   *)
(* attribute that a subclass INHERITS once an ancestor has created it).    *)
(* Contract: the invariants at the end (property C20).                     *)
(***************************************************************************)
EXTENDS Integers, Sequences, FiniteSets, TLC, Json

CONSTANTS Cls, MsgKinds, Outs, DelayCls, Vals, Depth, Variant, MaxObjs, Parents, Fmts, SecondReport, BadOverrides
\* Cls subset of {"P","C","N","T"}: P = instructor subclass of Feedback, C = subclass of P, T = a tool feedback
Attrs == {"template", "title"}
\* N = another subclass of P whose own class body sets title = None, masking P's title
\* I = a subclass of P with an EMPTY class body: it defines nothing itself, every attribute is inherited ("inherit")
Parent(c) == IF c \in {"C", "N", "I"} THEN "P" ELSE "none"

VARIABLES objs,      \* sequence of feedback objects [cls, mk, out, status, truth, list, msg]
          active, ignored,   \* report.feedback / report.ignored_feedback as sequences of object ids
          attr,      \* class attribute values  [Cls -> [Attrs -> {"orig"} \cup Vals]]
          table,     \* which backup table a class uses: "none" (class has _override_backups None), else owner class
          backup,    \* backup tables by owner class: [Cls -> [Attrs -> value or "none"]]
          overridden,\* report.overridden_feedbacks
          overridden2, \* the same registry of a SECOND Report object (a preview report next to the grading report);
                      \* the backup tables live on the classes, so both reports share them
          lastCleared, \* ghost: the classes that had been overridden THROUGH the report cleared last
          via,         \* ghost: [report -> classes overridden through it since it was last cleared] (what the
                      \* contract speaks about; `overridden` / `overridden2` are the implementation's registries)
          fmt,       \* report.format
          raised,    \* did the last call raise to its caller?
          hist
vars == <<objs, active, ignored, attr, table, backup, overridden, overridden2, lastCleared, via, fmt, raised, hist>>

Pristine == [c \in Cls |-> [a \in Attrs |-> IF c = "I" THEN "inherit" ELSE "orig:" \o c]]   \* own originals (I: none)
\* getattr(cls, attribute): the class' own value, else its parent's
Eff(at, c, a) == IF at[c][a] = "inherit" THEN at[Parent(c)][a] ELSE at[c][a]
NoBackup == [c \in Cls |-> [a \in Attrs |-> "none"]]

Proj == [active |-> active, ignored |-> ignored,
         objs |-> [i \in 1..Len(objs) |-> [status |-> objs[i].status, truth |-> objs[i].truth, msg |-> objs[i].msg]],
         attr |-> [c \in Cls |-> [a \in Attrs |-> Eff(attr, c, a)]], raised |-> raised, fmt |-> fmt]

Init == /\ objs = <<>> /\ active = <<>> /\ ignored = <<>> /\ attr = Pristine
        /\ table = [c \in Cls |-> "none"] /\ backup = NoBackup /\ overridden = {} /\ overridden2 = {} /\ lastCleared = {} /\ via = [r \in {1, 2} |-> {}]
        /\ fmt = "F1" /\ raised = FALSE /\ hist = <<>>

(* ---------- message derivation (Feedback._get_message) ---------- *)
\* explicit message wins; else the template (keyword, else class attribute looked up NOW) rendered through
\* the report's CURRENT formatter; else the default text.
DeriveMsg(cls, mk) ==
    IF mk = "explicit" THEN [k |-> "explicit", t |-> "-", f |-> "-"]
    ELSE IF mk = "kwtemplate" THEN [k |-> "template", t |-> "kw", f |-> fmt]
    \* a keyword template whose format spec itself contains a replacement field: '{x:>{w}}'
    ELSE IF mk = "kwnested" THEN [k |-> "template", t |-> "kwn", f |-> fmt]
    ELSE IF mk = "kwattr" THEN [k |-> "template", t |-> "kwa", f |-> fmt]     \* fields addressed through their attributes
    ELSE IF mk = "kwcustom" THEN [k |-> "template", t |-> "kwc", f |-> fmt]
    \* fields whose values cannot describe themselves (str() raises, unknown attributes raise KeyError): the feedback
    \* is delivered all the same, with the value's repr (or the default object repr) in the field's place
    ELSE IF mk = "kwhostile" THEN [k |-> "template", t |-> "kwh", f |-> fmt]
    \* the instructor passes ONE dictionary as fields= to several feedbacks, each with a location of its own: every
    \* message is about its own location
    ELSE IF mk = "kwshared" THEN [k |-> "template", t |-> "kws", f |-> fmt]
    ELSE [k |-> "template", t |-> Eff(attr, cls, "template"), f |-> fmt]
NoMsg == [k |-> "none", t |-> "-", f |-> "-"]

(* ---------- _handle_condition, written like the code ---------- *)
\* returns the object record after the condition was handled and whether the call raises
Handle(o) ==
    LET condRaises == o.out \in {"CR", "CX"}     \* "CX": the condition ends with SystemExit, not an Exception
        met0 == o.out \in {"T", "MR"}                 \* value returned by condition()
        \* _get_message() raises inside the try block: fields missing ("MR"), or the template uses a format
        \* ("kwcustom": '{x:shout}') that only formatter F3 -- a subclass that EXTENDS the list of formats -- provides
        msgRaises == met0 /\ (o.out = "MR" \/ (o.mk = "kwcustom" /\ fmt # "F3"))
        err == condRaises \/ msgRaises
        met == IF err THEN FALSE ELSE met0            \* except: self._met_condition = False
        status == IF err THEN "error" ELSE IF met THEN "active" ELSE "inactive"
        msg == IF met THEN DeriveMsg(o.cls, o.mk) ELSE NoMsg
        \* eff: what the evaluation amounted to ("T" held and rendered, "F" did not hold, "CR"/"MR" raised) -- the oracle
        \* of the contract; it differs from `out` when rendering failed for want of the format
        eff == IF msgRaises THEN "MR" ELSE o.out
    IN [obj |-> [o EXCEPT !.status = status, !.truth = met, !.msg = msg, !.eff = eff,
                          !.list = IF met THEN "active" ELSE "ignored"],
        raises |-> err]

\* mutants (binding self-tests): wrong list on the error path / added twice
MutHandle(o) ==
    LET h == Handle(o) IN
    CASE Variant = "error_active" -> IF h.raises /\ o.out = "MR"
                                     THEN [h EXCEPT !.obj.truth = TRUE, !.obj.list = "active"] ELSE h
      [] Variant = "swallow" -> [h EXCEPT !.raises = FALSE]
      [] OTHER -> h

Step(a) == hist' = Append(hist, [a |-> a, s |-> Proj'])
CanAct == Len(hist) < Depth

Attach(o, i) == /\ active' = IF o.list = "active" THEN Append(active, i) ELSE active
                /\ ignored' = IF o.list = "ignored" THEN Append(ignored, i) ELSE ignored

\* par: the `parent` keyword -- "none", or "str": a section named by a plain string (bookkeeping is the same)
Create(cls, mk, out, delay, par) ==
    /\ CanAct /\ Len(objs) < MaxObjs
    /\ ~(mk = "explicit" /\ out = "MR") /\ ~(cls = "T" /\ out \in {"CR", "CX"}) /\ ~(cls = "T" /\ mk \in {"kwnested", "kwcustom", "kwattr", "kwhostile", "kwshared"})
    /\ delay => cls \in DelayCls
    /\ LET o0 == [cls |-> cls, mk |-> mk, out |-> out, eff |-> out, status |-> "delayed", truth |-> FALSE,
                  list |-> "none", msg |-> NoMsg]
           i == Len(objs) + 1
       IN IF delay
          THEN /\ objs' = Append(objs, o0) /\ raised' = FALSE /\ UNCHANGED <<active, ignored>>
          ELSE LET h == IF Variant = "impl" THEN Handle(o0) ELSE MutHandle(o0) IN
               /\ objs' = Append(objs, h.obj) /\ Attach(h.obj, i) /\ raised' = h.raises
    /\ UNCHANGED <<attr, table, backup, overridden, overridden2, lastCleared, via, fmt>>
    /\ Step([op |-> "create", cls |-> cls, mk |-> mk, out |-> out, delay |-> delay, v |-> "-", attr |-> "-", i |-> 0, par |-> par])

HandleDelayed(i) ==
    /\ CanAct /\ i \in 1..Len(objs) /\ objs[i].status = "delayed"
    /\ LET h == IF Variant = "impl" THEN Handle(objs[i]) ELSE MutHandle(objs[i]) IN
       /\ objs' = [objs EXCEPT ![i] = h.obj] /\ Attach(h.obj, i) /\ raised' = h.raises
    /\ UNCHANGED <<attr, table, backup, overridden, overridden2, lastCleared, via, fmt>>
    /\ Step([op |-> "handle", cls |-> "-", mk |-> "-", out |-> "-", delay |-> FALSE, v |-> "-", attr |-> "-", i |-> i, par |-> "-"])

(* ---------- Feedback.override / _restore_overrides, written like the code ---------- *)
\* `if cls._override_backups is None: cls._override_backups = {}` -- attribute lookup goes through the
\* MRO, so a class whose ancestor already owns a table shares that table.
TableOf(c) == IF table[c] # "none" THEN table[c]
              ELSE IF Parent(c) \in Cls /\ table[Parent(c)] # "none" THEN table[Parent(c)] ELSE c
\* bad = TRUE: the call names one more, unknown, field after this one (override(title=..., bogus=1)): the known field is
\* set, then the call raises AttributeError - and what it changed must still be undone by the next clear.  Variant
\* register_after_fields tells the report about the class only after ALL fields went through.
OverrideVia(rep, c, a, v, bad) ==
    /\ CanAct /\ v # Eff(attr, c, a) /\ v # "inherit"
    /\ LET t == IF Variant = "shared_table" THEN TableOf(c) ELSE c   \* "shared_table" = code before the fix
           firstTime == backup[t][a] = "none"
           \* the report is told about the class on every override; Variant register_first_backup_only tells it only
           \* when this call took a first-time backup ("something new to undo")
           registers == (Variant # "register_first_backup_only" \/ firstTime) /\ ~(bad /\ Variant = "register_after_fields")
       IN /\ table' = [table EXCEPT ![c] = t]
          /\ backup' = IF firstTime \/ Variant = "backup_always"
                       \* what is saved: the class' OWN state (possibly "the class does not define it"); Variant
                       \* pin_inherited saved getattr(cls, field), i.e. whatever the parent held at that moment, and
                       \* restoring that pinned a copy of it onto the subclass
                       THEN [backup EXCEPT ![t][a] = IF Variant = "pin_inherited" THEN Eff(attr, c, a) ELSE attr[c][a]]
                       ELSE backup
          /\ attr' = [attr EXCEPT ![c][a] = v]
          /\ IF rep = 1 THEN overridden' = (IF registers THEN overridden \cup {c} ELSE overridden) /\ UNCHANGED overridden2
             ELSE overridden2' = (IF registers THEN overridden2 \cup {c} ELSE overridden2) /\ UNCHANGED overridden
    /\ raised' = bad /\ via' = [via EXCEPT ![rep] = @ \cup {c}]
    /\ UNCHANGED <<objs, active, ignored, fmt, lastCleared>>
    /\ Step([op |-> IF bad THEN "override_bad" ELSE IF rep = 1 THEN "override" ELSE "override2", cls |-> c, mk |-> "-", out |-> "-", delay |-> FALSE, v |-> v, attr |-> a, i |-> 0, par |-> "-"])
Override(c, a, v) == OverrideVia(1, c, a, v, FALSE)
OverrideBad(c, a, v) == BadOverrides /\ OverrideVia(1, c, a, v, TRUE)
Override2(c, a, v) == SecondReport /\ OverrideVia(2, c, a, v, FALSE)

\* clear_overridden_feedback: for each overridden class (set iteration order is not specified; the model
\* restores P before C, T independent), setattr from its table, then clear that table.
RECURSIVE Restore(_, _, _)
Restore(at, bk, cs) ==
    IF cs = <<>> THEN [attr |-> at, backup |-> bk]
    ELSE LET c == Head(cs)
             t == IF table[c] = "none" THEN c ELSE table[c]
             \* Variant restore_none_deletes: a backed-up value of None is "restored" by deleting the attribute from the
             \* class, which uncovers the parent's current value when the class had defined None itself (N.title)
             at1 == [at EXCEPT ![c] = [a \in Attrs |->
                        IF bk[t][a] = "none" THEN at[c][a]
                        ELSE IF Variant = "restore_none_deletes" /\ c = "N" /\ a = "title" /\ bk[t][a] = "orig:N"
                             THEN at[Parent(c)][a] ELSE bk[t][a]]]
             bk1 == [bk EXCEPT ![t] = [a \in Attrs |-> "none"]]
         IN Restore(at1, bk1, Tail(cs))
OrderP == LET s == <<"P", "C", "N", "I", "T">> IN SelectSeq(s, LAMBDA c : c \in overridden)
OrderC == LET s == <<"C", "N", "I", "P", "T">> IN SelectSeq(s, LAMBDA c : c \in overridden)

ClearEffects(order) ==
    LET r == Restore(attr, backup, order) IN
    /\ attr' = r.attr /\ backup' = r.backup /\ overridden' = {} /\ lastCleared' = via[1] /\ via' = [via EXCEPT ![1] = {}] /\ UNCHANGED overridden2
    /\ active' = <<>> /\ ignored' = <<>> /\ fmt' = "F1" /\ raised' = FALSE
    /\ objs' = [i \in 1..Len(objs) |-> [objs[i] EXCEPT !.list = "none"]]
    /\ UNCHANGED table

Clear == /\ CanAct /\ (ClearEffects(OrderP) \/ ClearEffects(OrderC))
         /\ Step([op |-> "clear", cls |-> "-", mk |-> "-", out |-> "-", delay |-> FALSE, v |-> "-", attr |-> "-", i |-> 0, par |-> "-"])
\* clearing the SECOND report: its registered classes are restored; the first report's lists and formatter are its own
Order2 == LET s == <<"P", "C", "N", "I", "T">> IN SelectSeq(s, LAMBDA c : c \in overridden2)
Clear2 == /\ SecondReport /\ CanAct
          /\ LET r == Restore(attr, backup, Order2) IN attr' = r.attr /\ backup' = r.backup
          /\ overridden2' = {} /\ lastCleared' = via[2] /\ via' = [via EXCEPT ![2] = {}] /\ raised' = FALSE
          /\ UNCHANGED <<objs, active, ignored, fmt, table, overridden>>
          /\ Step([op |-> "clear2", cls |-> "-", mk |-> "-", out |-> "-", delay |-> FALSE, v |-> "-", attr |-> "-", i |-> 0, par |-> "-"])
Contextualize(clr) ==
    /\ CanAct
    /\ IF clr THEN (ClearEffects(OrderP) \/ ClearEffects(OrderC))
       ELSE raised' = FALSE /\ UNCHANGED <<objs, active, ignored, attr, table, backup, overridden, overridden2, lastCleared, via, fmt>>
    /\ Step([op |-> IF clr THEN "context_clear" ELSE "context_keep", cls |-> "-", mk |-> "-", out |-> "-",
             delay |-> FALSE, v |-> "-", attr |-> "-", i |-> 0, par |-> "-"])
SetFormatter(f) ==
    /\ CanAct /\ f # fmt /\ fmt' = f /\ raised' = FALSE
    /\ UNCHANGED <<objs, active, ignored, attr, table, backup, overridden, overridden2, lastCleared, via>>
    /\ Step([op |-> "setfmt", cls |-> "-", mk |-> "-", out |-> "-", delay |-> FALSE, v |-> f, attr |-> "-", i |-> 0, par |-> "-"])

Next == \/ \E c \in Cls, mk \in MsgKinds, out \in Outs, d \in BOOLEAN, par \in Parents : Create(c, mk, out, d, par)
        \/ \E i \in 1..MaxObjs : HandleDelayed(i)
        \/ \E c \in Cls, a \in Attrs : \E v \in Vals \cup {Pristine[c][a]} : Override(c, a, v)
        \/ \E c \in Cls, a \in Attrs : \E v \in Vals \cup {Pristine[c][a]} : Override2(c, a, v)
        \/ \E c \in Cls, a \in Attrs : \E v \in Vals \cup {Pristine[c][a]} : OverrideBad(c, a, v)
        \/ Clear \/ Clear2 \/ Contextualize(TRUE) \/ Contextualize(FALSE)
        \/ \E f \in Fmts : SetFormatter(f)
Spec == Init /\ [][Next]_vars

(* ---------- CONTRACT (C20) ---------- *)
Ids(s) == {s[k] : k \in 1..Len(s)}
Last == hist[Len(hist)].a
\* every handled object created since the last clear is in exactly one list, exactly once
ExactlyOnce == \A i \in 1..Len(objs) :
    LET n == Cardinality({k \in 1..Len(active) : active[k] = i}) + Cardinality({k \in 1..Len(ignored) : ignored[k] = i})
    IN IF objs[i].list = "none" THEN n = 0 ELSE n = 1
RightList == \A i \in 1..Len(objs) : objs[i].list # "none" =>
    /\ (i \in Ids(active)) <=> (objs[i].eff = "T")
    /\ (i \in Ids(ignored)) <=> (objs[i].eff # "T")
Truth == \A i \in 1..Len(objs) : objs[i].status # "delayed" => (objs[i].truth <=> objs[i].eff = "T")
ErrorPath == \A i \in 1..Len(objs) : objs[i].status # "delayed" =>
    (objs[i].eff \in {"CR", "CX", "MR"} <=> objs[i].status = "error")
\* the exception reaches the caller exactly when the condition or the message raised
RaisesToCaller == hist # <<>> /\ Last.op \in {"create", "handle"} =>
    LET i == IF Last.op = "create" THEN Len(objs) ELSE Last.i IN
    objs[i].status # "delayed" => (raised <=> objs[i].eff \in {"CR", "CX", "MR"})
MessageDerivation == \A i \in 1..Len(objs) : objs[i].status = "active" =>
    LET m == objs[i].msg IN
    /\ (objs[i].mk = "explicit") => m.k = "explicit"
    /\ (objs[i].mk # "explicit") => m.k = "template" /\ m.f \in Fmts
\* after clearing a report, every class that was registered with THAT report is back to its pristine attributes (with
\* one report: everything is) and the report's registry is empty
OverridesRestored == hist # <<>> /\ Last.op \in {"clear", "context_clear", "clear2"} =>
    /\ IF SecondReport THEN \A c \in lastCleared : attr[c] = Pristine[c] ELSE attr = Pristine
    /\ IF Last.op = "clear2" THEN overridden2 = {} ELSE overridden = {}

Complete == Len(hist) = Depth
Export == Complete => PrintT(<<"VP", ToJson([hist |-> hist])>>)
=============================================================================
