SPECIFICATION Spec
CONSTANTS
  EffTokens = {"pa", "pae", "sp", "in", "pn", "pcr"}
  MaxEff = 1
  Modes = {"normal", "exc"}
  FnModes = {"normal"}
  MaxFns = 1
  Depth = 3
  InputOps = {"clear_output", "set_input"}
  Entries = {"run", "call"}
  TracerStyles = {"none"}
  Threadeds = {FALSE}
  Givens = {}
  Blockeds = {"none"}
  Flags = {}
INVARIANT Restored
INVARIANT Contained
INVARIANT NoSpuriousFb
INVARIANT OutputLedger
INVARIANT InputFifo
CONSTRAINT Export
CHECK_DEADLOCK FALSE
