SPECIFICATION Spec
CONSTANTS
  Vars = {"x", "c"}
  MaxTok = 7
  MaxDepth = 2
  Types = {"i", "s"}
  CondVars = {"c", "x"}
  Copies = TRUE
  Flags = {}
INVARIANT ReadsExact
INVARIANT UnusedExact
CONSTRAINT Export
CHECK_DEADLOCK FALSE
