"""Binding of specs/SourceVerify.tla (C12): offer texts to verify(), log CPython's own parse outcome next to pedal's."""
import ast
import re
import glob
import os
import random

TEMPLATES = {
    "ok": ["x = 1\nprint(x)\n", "def f(a):\n    return a\n", "caf\u00e9 = 1\nprint(caf\u00e9)\n", "x = 1\r\ny = 2\r\n", "x = 1\x0c\ny = 2\n"],
    "blank": ["", "   \n\n", "\t\n", "\n"],
    "syntax": ["x = (\n", "print('a'\nprint('b')\n", "def f(:\n    pass\n", "x = 1 +\n", "a = 5\nb = = 6\n", "x = 1\ry = = 2\rz = 3\r", "for in x:\n    pass\n", "\ufeffx = 1\n"],
    "indent": ["def f():\nreturn 1\n", "x = 1\n    y = 2\n", "if True:\n    x = 1\n  y = 2\n"],
    "tab": ["if True:\n\tx = 1\n        y = 2\n"],
    "nul": ["x = 1\x00\n", "\x00"],
    "syntax_noline": ["x = 1\x00\n"],
    "unencodable": ["x = '\ud800'\n", "# \udfff\nx = 1\n"],
    "resource": ["-" * 50000 + "1\n", "x = " + "not " * 20000 + "1\n"],
}


def classify(text):
    """CPython's own verdict: (class, line)."""
    if text.strip() == "":
        # (an all-blank text parses, but is reported as blank by the contract)
        try:
            ast.parse(text)
            return "blank", 0
        except SyntaxError as e:
            return "syntax", e.lineno or 0
    try:
        ast.parse(text, "answer.py")
        return "ok", 0
    except TabError as e:
        return "tab", e.lineno or 0
    except IndentationError as e:
        return "indent", e.lineno or 0
    except SyntaxError as e:
        return ("syntax" if e.lineno else "syntax_noline"), e.lineno or 0
    except UnicodeEncodeError:
        return "unencodable", 0
    except ValueError:
        return "nul", 0
    except (RecursionError, MemoryError):
        return "resource", 0


def offer(text, offset, other=False, native=False):
    """Call the real verify() on `text` with the given line offset; -> event for TraceVerify.
    other=True: the text is offered as ANOTHER file of a multi-file submission (verify(text, filename='helper.py'));
    the main file's section offset does not apply to it and the stored helper file is shorter than the text."""
    from pedal.core.report import MAIN_REPORT as R
    from pedal.source.source import verify
    cls, line = classify(text)
    if other:
        R.submission.files["helper.py"] = "h = 1\n"
        R.submission.replace_main("m = 0\n" * 40)        # (the main file is longer than the text, the stored helper shorter)
        R.submission.clear_line_offsets()
        if offset:
            R.submission.set_line_offset(offset)      # belongs to the main file
        offset = 0
    else:
        R.submission.replace_main(text)
        R.submission.clear_line_offsets()
        if offset:
            R.submission.set_line_offset(offset)
    n0 = len(R.feedback) + len(R.ignored_feedback)
    before = {id(f) for f in R.feedback}
    ev = {"cls": cls, "line": line, "offset": offset, "raised": False, "nsyntax": 0, "fbline": 0, "blankfb": False,
          "tree_ok": False, "tbline": 0, "msgline": 0, "fbmsgline": 0}
    try:
        # native=True: the documented option enhance=False (the interpreter's own wording instead of pedal's)
        if other:
            verify(text, filename="helper.py", report=R, enhance=not native)
        else:
            verify(report=R, enhance=not native)
    except Exception as e:
        ev["raised"] = True
        ev["error"] = "%s: %s" % (type(e).__name__, e)
        return ev
    new = [f for f in R.feedback if id(f) not in before]
    syn = [f for f in new if f.label in ("syntax_error", "indentation_error")]
    ev["nsyntax"] = len(syn)
    if syn and syn[0].location is not None and syn[0].location.line is not None:
        ev["fbline"] = syn[0].location.line
    ev["tbline"] = traceback_line(syn[0]) if syn else 0
    ev["msgline"] = parser_quoted_line(text)
    ev["fbmsgline"] = feedback_quoted_line(syn[0]) if syn else 0
    ev["blankfb"] = any(f.label == "blank_source" for f in new)
    if cls in ("ok", "blank"):
        try:
            ev["tree_ok"] = ast.dump(R["source"]["ast"]) == ast.dump(ast.parse(text))
        except Exception:
            ev["tree_ok"] = False
    return ev


def parser_quoted_line(text):
    """The line CPython's own message quotes for this text ("... on line K"), 0 when it quotes none."""
    import warnings
    try:
        with warnings.catch_warnings():
            warnings.simplefilter("ignore")
            ast.parse(text, "answer.py")
    except SyntaxError as e:
        m = re.search(r"\bon line (\d+)", e.msg or "")
        return int(m.group(1)) if m else 0
    except Exception:
        return 0
    return 0


def feedback_quoted_line(feedback):
    """The number standing in the same place of the message the learner reads."""
    m = re.search(r"statement on line (\d+)", str(getattr(feedback, "message", "") or ""))
    return int(m.group(1)) if m else 0


def traceback_line(feedback):
    """The line of the last frame shown in the feedback's traceback (0 when there is none)."""
    stack = (feedback.fields or {}).get("traceback_stack") or []
    try:
        return int(stack[-1].lineno) if stack else 0
    except Exception:
        return 0


_FRESH = [0]


def fresh():
    from pedal.core.commands import clear_report, contextualize_report
    clear_report()
    contextualize_report("x = 0\n")
    _FRESH[0] += 1
    import os as _os
    if _os.environ.get("VERIF_FORCE_HTML") or _FRESH[0] % 2 == 0:
        # every other offer is judged with the HTML formatter on the report (the web environments' wording)
        from pedal.core.report import MAIN_REPORT
        from pedal.core.formatting import HtmlFormatter
        MAIN_REPORT.set_formatter(HtmlFormatter(MAIN_REPORT))


def hist_chunk(cases, extra):
    from engine.core import setup_repo_path
    setup_repo_path()
    out = []
    for idx, rec in cases:
        fresh()
        events, texts = [], []
        rng = random.Random(idx)
        for h in rec["hist"]:
            opts = TEMPLATES[h["c"]]
            text = opts[(idx + len(events)) % len(opts)]
            ev = offer(text, h["off"])
            if ev["cls"] != h["c"] and not (h["c"] in ("nul", "syntax_noline") and ev["cls"] in ("nul", "syntax_noline")):
                ev["environment_mismatch"] = "template for %s classified %s by CPython" % (h["c"], ev["cls"])
            events.append(ev)
            texts.append(text)
        out.append({"events": events, "texts": texts, "hist": rec["hist"]})
    return out


def corpus_texts(seed, n):
    repo = os.environ.get("VERIF_REPO", "/repo")
    files = sorted(glob.glob(os.path.join(repo, "tests", "datafiles", "**", "*.py"), recursive=True) +
                   glob.glob(os.path.join(repo, "examples", "**", "*.py"), recursive=True))
    rng = random.Random(seed)
    base = []
    for f in files:
        try:
            t = open(f, encoding="utf-8").read()
        except Exception:
            continue
        if 0 < len(t) < 3000:
            base.append(t)
    base += [t for ts in TEMPLATES.values() for t in ts]
    # texts whose parser message quotes a brace
    base += ["d = {1: 2\nprint(d)\n", "s = {1, 2\n", "x = (1, 2}\n", "print(f'{x')\n", "y = 3}\n", "z = [1, 2}\n"]
    out = []
    alphabet = ["(", ")", ":", " ", "\t", "\n", "\x0c", "\r", "\x00", "'", '"', "=", "é", ",", "[", "\\", "{", "}", "]"]
    for i in range(n):
        t = rng.choice(base)
        k = rng.randint(0, 3)
        for _ in range(k):
            if not t:
                break
            pos = rng.randrange(len(t) + 1)
            r = rng.random()
            if r < 0.45:
                t = t[:pos] + rng.choice(alphabet) + t[pos:]
            elif r < 0.9 and pos < len(t):
                t = t[:pos] + t[pos + rng.randint(1, 3):]
            else:
                t = t[:pos] + t[pos:].replace("\n", rng.choice(["\r\n", "\r"]), 1)
        out.append(t)
    return out


def text_chunk(items, extra):
    from engine.core import setup_repo_path
    setup_repo_path()
    out = []
    for item in items:
        text, offset = item[:2]
        fresh()
        ev = offer(text, offset, other=len(item) > 2 and item[2] == "other", native=len(item) > 2 and item[2] == "native")
        out.append({"events": [ev], "texts": [text]})
    return out


# ------------------------------------------------------------------ verify() inside a section (whole-file numbering)
PROLOGUES = ["x = 1\n", "x = 1\n\n\n", "x = 1\n# page one\x0cpage two\n", "s = 'a\x0bb'\nt = 2\n", "x = 1\r\ny = 2\r\n",
             "# \x1c \x1d \x1e\n", "#   and   and \x85\nz = 0\n", "u = '''a\nb'''\n", "", "x = 1\ry = 2\n"]
SECTION_BODIES = ["y = (\n", "def f(:\n    pass\n", "a = 5\nb = = 6\n", "if True:\nx = 1\n", "ok = 1\nprint(ok)\n",
                  # old-Mac line ends INSIDE the section: the parser counts them, str.split("\n") does not
                  "k = 1\rm = 2\rb = = 6", "k = 1\rm = 2\rn = 3\rb = = 6\n"]


def section_chunk(items, extra):
    """items: (prologue index, body index, which section holds the body: 1 or 2).  The text is split by the Source
    tool (independent sections), the walk goes to that section and verify() is called there.  The event carries the
    parser's verdict on the SECTION text and the offset that makes its line the whole-file line CPython reports."""
    from engine.core import setup_repo_path
    setup_repo_path()
    from pedal.core.report import MAIN_REPORT as R
    from pedal.core.commands import clear_report, contextualize_report
    from pedal.source import separate_into_sections, next_section, verify
    out = []
    for item in items:
        pi, bi, k = item[:3]
        after_stop = len(item) > 3 and item[3] == "stop"      # verify the WHOLE file after the walk was stopped
        after_set = len(item) > 3 and item[3] == "set"         # set_source(<section body text>) during the walk
        pro, body = PROLOGUES[pi], SECTION_BODIES[bi]
        filler = "w = 0\n" if k == 2 else ""
        eol = "\n"
        if "\r\n" in pro:
            # a file saved with Windows line endings has them everywhere: marker lines and section bodies too
            eol = "\r\n"
            body, filler = body.replace("\n", eol), filler.replace("\n", eol)
        whole = pro + "##### Part 1" + eol + (filler + "##### Part 2" + eol if k == 2 else "") + body
        cls, line = classify(body)
        wcls, wline = classify(whole)
        # CPython's own line count of what precedes the section body
        before = whole[:len(whole) - len(body)]
        try:
            true_offset = len(ast.parse(before + "pass\n").body) and (ast.parse(before + "pass\n").body[-1].lineno - 1)
        except SyntaxError:
            continue
        clear_report()
        contextualize_report(whole)
        ev = {"cls": cls, "line": line, "offset": true_offset, "raised": False, "nsyntax": 0, "fbline": 0, "blankfb": False,
              "tree_ok": False, "sectioned": True, "tbline": 0, "msgline": 0, "fbmsgline": 0}
        try:
            separate_into_sections(independent=True, report=R)
            for _ in range(k):
                next_section(report=R)
            if after_stop:
                from pedal.source import stop_sections
                stop_sections(report=R)
                # no section is active: the parser's verdict on the whole file, no offset
                ev["cls"], ev["line"], ev["offset"] = wcls, wline, 0
                cls = wcls
            before_ids = {id(f) for f in R.feedback}
            if after_set:
                # another text takes the place of the sectioned file while a section is presented: the verdict and the
                # line are the parser's for THAT text, no offset (set_source verifies what it is given)
                from pedal.source import set_source
                ev["cls"], ev["line"], ev["offset"] = cls, line, 0
                ev["sectioned"] = False
                set_source(body, report=R)
            else:
                verify(report=R)
        except Exception as e:
            ev["raised"] = True
            ev["error"] = "%s: %s" % (type(e).__name__, e)
            out.append({"events": [ev], "texts": [whole]})
            continue
        # the section text the tools see starts with the remainder of the marker line ("\n")
        new = [f for f in R.feedback if id(f) not in before_ids]
        syn = [f for f in new if f.label in ("syntax_error", "indentation_error")]
        ev["nsyntax"] = len(syn)
        if syn and syn[0].location is not None and syn[0].location.line is not None:
            ev["fbline"] = syn[0].location.line
        ev["tbline"] = traceback_line(syn[0]) if syn else 0
        ev["msgline"] = parser_quoted_line(whole if after_stop else body)
        ev["fbmsgline"] = feedback_quoted_line(syn[0]) if syn else 0
        ev["blankfb"] = any(f.label == "blank_source" for f in new)
        if cls in ("ok", "blank"):
            try:
                ev["tree_ok"] = ast.dump(R["source"]["ast"]) == ast.dump(ast.parse(R.submission.main_code))
            except Exception:
                ev["tree_ok"] = False
        if cls not in ("ok", "blank") and wcls == cls and wline and line and wline - line != true_offset:
            ev["environment_mismatch"] = "whole-file line %d, section line %d, computed offset %d" % (wline, line, true_offset)
        out.append({"events": [ev], "texts": [whole]})
    return out
