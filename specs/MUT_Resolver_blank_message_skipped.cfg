SPECIFICATION Spec
CONSTANTS
  Cats = {"runtime", "instructor"}
  Prios = {"none"}
  Trigs = {FALSE, TRUE}
  Muteds = {FALSE, TRUE}
  Kinds = {"Mistake"}
  Elses = {FALSE}
  Labels = {"a"}
  Flds = {"f1"}
  Corrects = {"T", "F"}
  Valences = {"neg"}
  Scores = {"none"}
  Unscoreds = {FALSE}
  Msgs = {"text", "empty"}
  SuppU <- SuppScore
  MaxFb = 2
  MaxSupp = 1
  Variant = "blank_message_skipped"
INVARIANT CorrectIff
CHECK_DEADLOCK FALSE
