SPECIFICATION Spec
CONSTANTS
  MaxOps = 5
  Threadeds = {FALSE, TRUE}
  Flags = {}
INVARIANT SameReturn
INVARIANT SameGlobals
CONSTRAINT Export
CHECK_DEADLOCK FALSE
