SPECIFICATION Spec
CONSTANTS
  EffTokens = {"ina"}
  MaxEff = 1
  Modes = {"normal"}
  FnModes = {"normal"}
  MaxFns = 1
  Depth = 4
  InputOps = {"set_input", "clear_input", "set_input_self"}
  Entries = {"run", "call"}
  TracerStyles = {"none"}
  Threadeds = {FALSE}
  Givens = {}
  Blockeds = {"none"}
  Flags = {}
INVARIANT Restored
INVARIANT OutputLedger
INVARIANT InputFifo
CONSTRAINT Export
CHECK_DEADLOCK FALSE
