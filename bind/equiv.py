"""Binding of specs/Equiv.tla (C06): run programs in pedal's sandbox and as __main__ in plain CPython, compare
printed text (modulo prompt echo), student-defined globals and outcome (exception class + line)."""
import json
import math
import os
import random
import subprocess
import sys

ROOT = os.path.dirname(os.path.dirname(os.path.abspath(__file__)))
STMT = {"px": "print('x', x)", "pe": "print('a', end='')", "ps": "print('a', 'b', sep='-')", "inc": "x = x + 1",
        "dbl": "x = f(x)", "in": "v = input('p')", "pv": "print('v', v)"}
MODE = {"annotation": "z: undefined_annotation_type = 1", "normal": None, "ValueError": "raise ValueError('boom')", "ZeroDivisionError": "y = 1 / 0", "NameError": "y = undefined_name",
        "IndexError": "y = [1][5]", "KeyError": "y = {}['k']", "custom": "raise Custom('mine')"}
HEADER = "class Custom(Exception):\n    pass\ndef f(a):\n    return a * 2\nx = 0\nv = 'none'\n"
HEADER_LINES = HEADER.count("\n")


def concretise(prog):
    lines = [STMT[s] for s in prog["stmts"]]
    if MODE[prog["mode"]]:
        lines.append(MODE[prog["mode"]])
    return HEADER + "\n".join(lines) + ("\n" if lines else "")


def jsonable(v, depth=0):
    if isinstance(v, float):
        if v != v:
            return "float:nan"
        if v in (float("inf"), float("-inf")):
            return "float:" + repr(v)
        return ["float", repr(v)]
    if isinstance(v, bool) or v is None or isinstance(v, (int, str)):
        return [type(v).__name__, v if not isinstance(v, int) or abs(v) < 2 ** 53 else str(v)]
    if depth > 4:
        return "deep"
    if isinstance(v, (list, tuple)):
        return [type(v).__name__, [jsonable(x, depth + 1) for x in v]]
    if isinstance(v, dict):
        return ["dict", sorted(([jsonable(k, depth + 1), jsonable(x, depth + 1)] for k, x in v.items()), key=repr)]
    if isinstance(v, (set, frozenset)):
        return [type(v).__name__, sorted((jsonable(x, depth + 1) for x in v), key=repr)]
    return None      # functions, classes, modules, instances: not data


IGNORED = {"input", "open", "compile", "eval", "exec", "globals", "exit", "__import__", "print"}


def project_globals(ns):
    out = {}
    for k, v in ns.items():
        if k.startswith("__") or k in IGNORED:
            continue
        j = jsonable(v)
        if j is not None:
            out[k] = j
        else:
            out[k] = "<%s>" % type(v).__name__
    return out


def run_sandbox(src, inputs):
    from pedal.core.report import MAIN_REPORT as R
    from pedal.core.commands import clear_report, contextualize_report
    from pedal.sandbox import commands as S
    clear_report()
    contextualize_report(src)
    S.set_input(list(inputs))
    S.run()
    sb = S.get_sandbox()
    exc = sb.exception
    line = None
    if exc is not None:
        fbs = [f for f in R.feedback if f.category == "runtime"]
        if fbs and fbs[-1].location is not None:
            line = fbs[-1].location.line
    return {"out": sb.raw_output, "globals": project_globals(sb.data), "outcome": type(exc).__name__ if exc is not None else "normal",
            "line": line}


PLAIN_RUNNER = r'''
import sys, json, io, traceback
sys.path.insert(0, %r)
from bind.equiv import project_globals
jobs = json.load(open(sys.argv[1]))
res = []
real_stdin, real_stdout = sys.stdin, sys.stdout
for src, inputs in jobs:
    ns = {"__name__": "__main__"}
    out = io.StringIO()
    sys.stdout = out
    sys.stdin = io.StringIO("".join(x + "\n" for x in inputs))
    outcome, line = "normal", None
    try:
        exec(compile(src, "answer.py", "exec"), ns)
    except SystemExit as e:
        outcome = "SystemExit"
    except BaseException as e:
        outcome = type(e).__name__
        tb = e.__traceback__
        frames = [f for f in traceback.extract_tb(tb) if f.filename == "answer.py"]
        line = frames[-1].lineno if frames else getattr(e, "lineno", None)
    finally:
        sys.stdout, sys.stdin = real_stdout, real_stdin
    res.append({"out": out.getvalue(), "globals": project_globals(ns), "outcome": outcome, "line": line})
json.dump(res, open(sys.argv[2], "w"))
'''


def run_plain_batch(jobs):
    """Each program as __main__ in an unmodified interpreter (one fresh process per batch, fresh namespace per
    program, stdin fed from the input queue)."""
    os.makedirs(os.path.join(ROOT, "build"), exist_ok=True)
    base = os.path.join(ROOT, "build", "plain.%d.%d" % (os.getpid(), random.randrange(10 ** 9)))
    json.dump(jobs, open(base + ".in", "w"))
    try:
        p = subprocess.run(["/venv/bin/python", "-c", PLAIN_RUNNER % ROOT, base + ".in", base + ".out"],
                           stdout=subprocess.PIPE, stderr=subprocess.PIPE, text=True, timeout=600,
                           env={k: v for k, v in os.environ.items() if k != "PEDAL_EDU_PEDAL_VERIF"})
        if p.returncode != 0:
            raise RuntimeError("plain runner failed: " + p.stderr[-800:])
        return json.load(open(base + ".out"))
    finally:
        for ext in (".in", ".out"):
            try:
                os.remove(base + ext)
            except OSError:
                pass


def strip_prompts(text, prompts, boxed):
    for p in prompts:
        text = text.replace(p + "\n" if boxed else p, "")
    return text


def compare(sand, plain, prompts):
    bad = []
    if strip_prompts(sand["out"], prompts, True) != strip_prompts(plain["out"], prompts, False):
        bad.append("output")
    if sand["outcome"] != plain["outcome"]:
        bad.append("outcome")
    elif sand["outcome"] != "normal" and plain["line"] is not None and sand["line"] != plain["line"]:
        bad.append("line")
    pg = plain["globals"]
    sg = {k: v for k, v in sand["globals"].items() if k in pg or not k.startswith("_")}
    if {k: v for k, v in sg.items() if k in pg} != pg or set(k for k in sg if k not in pg):
        bad.append("globals")
    return bad


def spec_chunk(cases, extra):
    from engine.core import setup_repo_path
    setup_repo_path()
    jobs = []
    for idx, rec in cases:
        jobs.append([concretise(rec["prog"]), list(rec["queue"])])
    plains = run_plain_batch(jobs)
    out = []
    for (idx, rec), (src, inputs), plain in zip(cases, jobs, plains):
        try:
            sand = run_sandbox(src, inputs)
        except Exception as e:
            out.append({"prog": rec["prog"], "queue": rec["queue"], "source": src, "fields": ["sandbox-raised"], "detail": "%s: %s" % (type(e).__name__, e)})
            continue
        # environment check: the spec's prediction against plain CPython
        obs = rec["obs"]
        want_out = "".join(" " if False else t for t in [])  # (prediction compared below on structured fields)
        pred_outcome = "normal" if obs["outcome"] == "normal" else {"custom": "Custom", "annotation": "NameError"}.get(obs["outcome"], obs["outcome"])
        if plain["outcome"] != pred_outcome or plain["globals"].get("x") != ["int", obs["x"]]:
            out.append({"prog": rec["prog"], "queue": rec["queue"], "source": src, "fields": ["environment"],
                        "detail": "spec predicts outcome %s x=%s, CPython gives %s x=%s" % (pred_outcome, obs["x"], plain["outcome"], plain["globals"].get("x"))})
            continue
        bad = compare(sand, plain, ["p"])
        if bad:
            out.append({"prog": rec["prog"], "queue": rec["queue"], "source": src, "fields": bad,
                        "sandbox": {k: sand[k] for k in ("out", "outcome", "line")}, "plain": {k: plain[k] for k in ("out", "outcome", "line")},
                        "globals_diff": {k: [sand["globals"].get(k), plain["globals"].get(k)] for k in set(sand["globals"]) | set(plain["globals"])
                                         if sand["globals"].get(k) != plain["globals"].get(k)}})
    return out


# ------------------------------------------------------------------ generated CS1 programs
def gen_program(rng):
    """A small deterministic CS1 program; returns (source, inputs, prompts)."""
    lines = []
    inputs = []
    prompts = []
    names = ["a", "b", "total", "items", "name", "data", "count"]
    defined = []

    def expr(depth=0):
        r = rng.random()
        nums = [n for n in defined if n in ("a", "b", "total", "count")]
        if r < 0.25 or not defined:
            return str(rng.randint(0, 9))
        if r < 0.45 and nums:
            return rng.choice(nums)
        if r < 0.7 and depth < 2:
            return "%s %s %s" % (expr(depth + 1), rng.choice(["+", "-", "*", "//", "%"]), expr(depth + 1))
        if r < 0.8:
            return "len(%s)" % rng.choice(["'abc'", "[1, 2]", "items" if "items" in defined else "'xy'"])
        if r < 0.9:
            return "%.1f" % rng.uniform(0, 5)
        return "int('%d')" % rng.randint(0, 20)
    n = rng.randint(3, 9)
    for _ in range(n):
        r = rng.random()
        if r < 0.22:
            v = rng.choice(["a", "b", "total", "count"])
            lines.append("%s = %s" % (v, expr()))
            defined.append(v)
        elif r < 0.34:
            lines.append("print(%s)" % ", ".join(expr() for _ in range(rng.randint(1, 2))) if rng.random() < 0.7 else
                         "print(%s, end=%r)" % (expr(), rng.choice(["", " ", "!\n"])))
        elif r < 0.42:
            lines.append("items = [%s]" % ", ".join(str(rng.randint(0, 9)) for _ in range(rng.randint(0, 4))))
            defined.append("items")
        elif r < 0.5 and "items" in defined:
            lines.append(rng.choice(["items.append(%s)" % expr(), "items.sort()", "total = sum(items)", "print(items[0])", "items = items[1:]"]))
            if "total = sum" in lines[-1]:
                defined.append("total")
        elif r < 0.58:
            p = rng.choice(["Name? ", "n: ", ">>"])
            prompts.append(p)
            inputs.append(rng.choice(["bob", "12", "x y", ""]))
            lines.append("name = input(%r)" % p)
            defined.append("name")
        elif r < 0.66:
            lines.append("data = {'k': %s, 'n': [%s]}" % (expr(), expr()))
            defined.append("data")
        elif r < 0.76:
            c = expr()
            lines.append("if %s > %s:\n    print('big')\nelse:\n    print('small', %s)" % (c, expr(), expr()))
        elif r < 0.84:
            lines.append("for i in range(%d):\n    total = %s + i\n    print(i, sep='-', end=';')\nprint()" % (rng.randint(0, 3), "total" if "total" in defined else "0"))
            defined.append("total")
        elif r < 0.9:
            lines.append("def helper(q, r=2):\n    return q * r\ncount = helper(%s)" % expr())
            defined.append("count")
        elif r < 0.94:
            lines.append("try:\n    b = int('%s')\nexcept ValueError:\n    b = -1" % rng.choice(["7", "seven"]))
            defined.append("b")
        elif r < 0.97:
            lines.append("class Box:\n    def __init__(self, w):\n        self.w = w\n    def area(self):\n        return self.w * 2\na = Box(%s).area()" % expr())
            defined.append("a")
        else:
            lines.append(rng.choice(["def typed(q: int, r: 'str' = 'x') -> int:\n    return q\nprint(typed.__annotations__)", "total = 1 / 0", "print(undefined_thing)", "b = [1, 2][7]", "raise ValueError('stop')", "a = 'x' + 1",
                                     "import math\na = math.floor(2.7) + math.sqrt(16)", "words = 'a b c'.split()\nprint([w.upper() for w in words])"]))
    return "\n".join(lines) + "\n", inputs, prompts


def gen_chunk(seeds, extra):
    from engine.core import setup_repo_path
    setup_repo_path()
    progs = [gen_program(random.Random(s)) for s in seeds]
    plains = run_plain_batch([[src, inputs] for src, inputs, _ in progs])
    out = []
    for seed, (src, inputs, prompts), plain in zip(seeds, progs, plains):
        rec = {"seed": seed, "source": src, "inputs": inputs, "plain_outcome": plain["outcome"]}
        if plain["outcome"] == "EOFError":
            rec["skipped"] = "reads more than queued"
            out.append(rec)
            continue
        try:
            sand = run_sandbox(src, inputs)
        except Exception as e:
            rec["fields"] = ["sandbox-raised"]
            rec["detail"] = "%s: %s" % (type(e).__name__, e)
            out.append(rec)
            continue
        bad = compare(sand, plain, prompts)
        if bad:
            rec["fields"] = bad
            rec["sandbox"] = {k: sand[k] for k in ("out", "outcome", "line")}
            rec["plain"] = {k: plain[k] for k in ("out", "outcome", "line")}
            rec["globals_diff"] = {k: [sand["globals"].get(k), plain["globals"].get(k)] for k in set(sand["globals"]) | set(plain["globals"])
                                   if sand["globals"].get(k) != plain["globals"].get(k)}
        out.append(rec)
    return out


# ------------------------------------------------------------------ call() marshalling
ARGS = {"int": "3", "negint": "-4", "float": "2.5", "inf": "float('inf')", "ninf": "float('-inf')", "nan": "float('nan')",
        "str": "'ab'", "strq": "'it\\'s \"q\"\\n'", "bool": "True", "none": "None", "list": "[1, 2]", "longlist": "list(range(120))",
        "nested": "{'k': [1, (2, 3)], 'z': None}", "tuple": "(1, 'a')", "empty": "[]", "set": "{1, 2}", "longstr": "'x' * 300",
        "object": "Marker()", "bytes": "b'ab'", "complex": "(1+2j)", "bigint": "10 ** 30", "range": "range(3)"}
CALL_STUDENT = '''
class Marker:
    def __eq__(self, o): return isinstance(o, Marker)
    def __hash__(self): return 1
def ident(a):
    return a
def describe(a, b=0):
    return [type(a).__name__, b]
def mutate(a):
    if isinstance(a, list):
        a.append(99)
    return a
def picky(a):
    if a is None or a == 3:
        raise ValueError('picky about %r' % (a,))
    return a
def two(a, b):
    return [a, b, a == b]
def alias_mutate(a, b):
    if isinstance(a, list):
        a.append(1)
        return len(b)
    return 0
def open(path):
    """the student's own function that happens to carry the name of a builtin the sandbox mocks"""
    return ['opened', path]
def shadowing(a):
    return open(a)
'''


def call_chunk(cases, extra):
    from engine.core import setup_repo_path
    setup_repo_path()
    from pedal.core.commands import clear_report, contextualize_report
    from pedal.sandbox import commands as S
    from bind.proxy import unwrap
    out = []
    clear_report()
    contextualize_report(CALL_STUDENT)
    S.run()
    sb = S.get_sandbox()
    direct_ns = {}
    exec(CALL_STUDENT, direct_ns)
    for fn, cls, style in cases:
        # build the argument independently for each side
        def build(ns):
            return eval(ARGS[cls], dict(ns))
        try:
            a_direct = build(direct_ns)
            if fn in ("two", "alias_mutate"):
                direct = ("ok", direct_ns[fn](a_direct, a_direct))
            elif style == "kwarg":
                direct = ("ok", direct_ns["describe"](a_direct, b=a_direct) if fn == "describe" else direct_ns[fn](a=a_direct))
            else:
                direct = ("ok", direct_ns[fn](a_direct))
        except Exception as e:
            direct = ("err", type(e).__name__)
        a_sand = build(sb.data)
        try:
            if fn in ("two", "alias_mutate"):
                res = S.call(fn, a_sand, a_sand)
            elif style == "kwarg":
                res = S.call("describe", a_sand, b=a_sand) if fn == "describe" else S.call(fn, a=a_sand)
            else:
                res = S.call(fn, a_sand)
            exc = sb.exception
            if exc is not None:
                sand = ("err", type(unwrap(exc)).__name__)
            else:
                sand = ("ok", unwrap(res))
        except Exception as e:
            sand = ("raised", "%s: %s" % (type(e).__name__, e))
        same = direct[0] == sand[0] and (jsonable(direct[1]) == jsonable(sand[1]) if direct[0] == "ok" and jsonable(direct[1]) is not None
                                         else (direct[1] == sand[1] if direct[0] == "err" else type(direct[1]).__name__ == type(sand[1]).__name__))
        if not same:
            out.append({"fn": fn, "arg": cls, "style": style, "direct": [direct[0], repr(direct[1])[:80]], "sandbox": [sand[0], repr(sand[1])[:120]]})
    return out


# ------------------------------------------------------------------ sessions (specs/EquivSession.tla)
SESSION_STUDENT = '''
total = 0
log = []
scratch = 1
def deposit(amount):
    global total
    total = total + amount
    return total
def note(x):
    log.append(x)
    return len(log)
def forget():
    global scratch
    del scratch
    return 1
def define():
    global fresh
    fresh = 7
    return fresh
'''
SESSION_ARGS = {"deposit": (5,), "note": ("n",), "forget": (), "define": ()}


def session_view(get):
    """The spec's abstract namespace, read through `get(name)` (raises NameError / KeyError when absent)."""
    def present(name):
        try:
            get(name)
            return True
        except Exception:
            return False
    return {"total": get("total"), "logn": len(get("log")), "scratch": present("scratch"), "fresh": present("fresh")}


def session_chunk(cases, extra):
    """Replay the exported sessions: the same calls on the sandbox (run once, then call()) and directly in a plain
    namespace; after every step compare the returned value and evaluate() of every global."""
    from engine.core import setup_repo_path
    setup_repo_path()
    from pedal.core.commands import clear_report, contextualize_report
    from pedal.sandbox import commands as S
    from bind.proxy import unwrap
    out = []
    for idx, rec in cases:
        threaded = bool(rec["threaded"])
        clear_report()
        contextualize_report(SESSION_STUDENT)
        sb = S.get_sandbox()
        sb.allowed_time = 5
        S.run(threaded=threaded)
        plain = {}
        exec(SESSION_STUDENT, plain)
        for pos, h in enumerate(rec["hist"], 1):
            op = h["op"]
            try:
                want = ("ok", plain[op](*SESSION_ARGS[op]))
            except Exception as e:
                want = ("err", type(e).__name__)
            try:
                res = S.call(op, *SESSION_ARGS[op], threaded=threaded)
                got = ("err", type(unwrap(sb.exception)).__name__) if sb.exception is not None else ("ok", unwrap(res))
            except Exception as e:
                got = ("raised", "%s: %s" % (type(e).__name__, e))
            if (want[0] == "ok") != (h["ret"] != -1):
                out.append({"case": rec, "kind": "environment", "step": pos, "detail": "plain interpreter gives %s, spec says %s" % (want, h["ret"])})
                break
            view_plain = session_view(lambda n: plain[n])

            def ev(name):
                r = S.evaluate(name, threaded=threaded)
                if sb.exception is not None:
                    raise NameError(name)
                return unwrap(r)
            try:
                view_sand = session_view(ev)
            except Exception as e:
                view_sand = {"error": "%s: %s" % (type(e).__name__, e)}
            view_data = session_view(lambda n: sb.data[n])
            bad = []
            if want != got:
                bad.append("return")
            if view_sand != view_plain:
                bad.append("evaluate")
            if view_data != view_plain:
                bad.append("data")
            if bad:
                out.append({"case": rec, "kind": "session", "step": pos, "op": op, "fields": bad, "threaded": threaded,
                            "plain": [list(want), view_plain], "sandbox": [[got[0], repr(got[1])[:60]], view_sand, view_data]})
                break
    return out
