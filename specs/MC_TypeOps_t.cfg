SPECIFICATION Spec
CONSTANTS
  Types = {"int", "float", "str", "list", "tuple"}
  BinOps = {"+", "-", "*", "/", "//", "%", "**", "<<", ">>", "|", "^", "&", "@"}
  CmpOps = {"==", "!=", "<", "<=", ">", ">=", "in", "not in", "is", "is not"}
  Depth2 = TRUE
  Shapes = {"full", "empty", "neg"}
INVARIANT NumClosed
CONSTRAINT Export
CHECK_DEADLOCK FALSE
