SPECIFICATION Spec
CONSTANTS
  Feats = {"type:str", "lit:5", "ast:For", "call:print", "op:+", "foreign", "verifyOther"}
  MaxOcc = 2
  MaxLen = 3
  Flags = {}
INVARIANT HistoryIndependent
INVARIANT NothingSurvives
CONSTRAINT Export
CHECK_DEADLOCK FALSE
