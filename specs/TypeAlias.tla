------------------------------ MODULE TypeAlias ------------------------------
(***************************************************************************)
(* List values through a short history of statements (C19, "the type it    *)
(* infers for the result is a pedal type that the actual run-time value    *)
(* conforms to" -- across statements, not only for one expression).        *)
(* CPython's semantics: `d = a + b` builds a NEW list object, `d = a`      *)
(* makes d another name for the SAME object, `v.append(x)` mutates the     *)
(* object v names.  The state maps names to objects and objects to the set *)
(* of element classes they hold.                                           *)
(***************************************************************************)
EXTENDS Integers, Sequences, FiniteSets, TLC, Json
CONSTANTS Vars, ElemTypes, MaxStmts, AllowAlias
VARIABLES ref, elems, hist
vars == <<ref, elems, hist>>
Objs == 1..(2 + MaxStmts)
NextObj == Cardinality(DOMAIN elems) + 1

Init == /\ ref = [v \in Vars |-> IF v = "p" THEN 1 ELSE IF v = "q" THEN 2 ELSE 3]   \* p = [] ; q = [1, 2] ; r = [1, 2]
        /\ elems = (1 :> {}) @@ (2 :> {"int"}) @@ (3 :> {"int"})
        /\ hist = <<>>
More == Len(hist) < MaxStmts
Concat(d, a, b) == /\ More /\ elems' = elems @@ (NextObj :> (elems[ref[a]] \cup elems[ref[b]]))
                   /\ ref' = [ref EXCEPT ![d] = NextObj]
                   /\ hist' = Append(hist, [s |-> "concat", d |-> d, a |-> a, b |-> b])
AppendTo(v, t) == /\ More /\ elems' = [elems EXCEPT ![ref[v]] = @ \cup {t}] /\ UNCHANGED ref
                  /\ hist' = Append(hist, [s |-> "append", d |-> v, a |-> t, b |-> "-"])
Alias(d, a) == /\ More /\ AllowAlias /\ d # a /\ ref' = [ref EXCEPT ![d] = ref[a]] /\ UNCHANGED elems
               /\ hist' = Append(hist, [s |-> "alias", d |-> d, a |-> a, b |-> "-"])
Next == \/ \E d, a, b \in Vars : Concat(d, a, b)
        \/ \E v \in Vars, t \in ElemTypes : AppendTo(v, t)
        \/ \E d, a \in Vars : Alias(d, a)
Spec == Init /\ [][Next]_vars

\* design facts of the reference semantics
FreshOnConcat == \A v, w \in Vars : ref[v] = ref[w] => elems[ref[v]] = elems[ref[w]]
Final == [v \in Vars |-> elems[ref[v]]]
Export == Len(hist) = MaxStmts => PrintT(<<"VP", ToJson([hist |-> hist, final |-> Final])>>)
=============================================================================
