SPECIFICATION Spec
CONSTANTS
  Cells <- OneCell
  Ops = {"A", "C"}
  MaxOps = 3
  Progs = {"c", "d", "x"}
  Flags = {"chain_not_reset"}
INVARIANT StartsClean
CHECK_DEADLOCK FALSE
