#!/usr/bin/env python3
"""Regenerate DESIGN.md section 11.7 (list of fix: commits of /repo, property from known_findings.json)."""
import json, re, subprocess
ROOT = "/verif"
kf = json.load(open(ROOT + "/known_findings.json"))
prop_of = {e["commit"][:7]: e["property"] for e in kf if e.get("commit")}
log = subprocess.check_output(["git", "-C", "/repo", "log", "--reverse", "--format=%h %s"]).decode().splitlines()
lines = []
for l in log:
    h, subj = l.split(" ", 1)
    if not subj.startswith("fix:"):
        continue
    lines.append("* `%s` %s — %s" % (h[:7], prop_of.get(h[:7], "—"), subj[4:].strip()))
s = open(ROOT + "/DESIGN.md").read()
a = s.index("### 11.7 ")
a = s.index("\n", a) + 1
b = s.index("## Appendix A")
s = s[:a] + "\n" + "\n".join(lines) + "\n\n" + s[b:]
open(ROOT + "/DESIGN.md", "w").write(s)
print(len(lines), "fix commits listed;", sum(1 for l in lines if " — — " in l or "` — " in l), "without a property")
