"""C10 / C11: CAIT matching against specs/CaitMatch.tla (IsEmbedding) and specs/CaitGen.tla (generalisation lattice)."""
import json
import os

from engine import tlc
from engine.core import shard_map, ROOT
from engine.tlc import MachineryError

CLAUSE_BITS = {1: "Functional/Injective", 2: "KindsAndContent", 4: "Covered", 8: "ParentsAgree", 16: "OrderKept",
               32: "VarsSingle", 64: "ExprsExact"}


def clause_names(mask):
    m = int(mask)
    return [n for b, n in CLAUSE_BITS.items() if m & b] or ["unknown"]


def build_bases(tier):
    from bind import cait as B
    # quick: every third base program plus the ones added for a specific mechanism, NAMED BY CONTENT (positions shift
    # whenever the library grows: the sibling-conflict program silently dropped out of the quick tier once)
    progs = B.BASE_PROGRAMS if tier == "thorough" else B.BASE_PROGRAMS[::3] + [p for p in B.QUICK_MUST_HAVE if p not in B.BASE_PROGRAMS[::3]]
    bases = []
    seen = set()
    for prog in progs:
        for frag, off in B.statement_bases(prog):
            if (frag, prog) in seen:
                continue
            seen.add((frag, prog))
            if tier == "thorough":
                bases.append(B.make_base(frag, max_expr=4, max_var=3, max_drop=4, subject=prog, offset=off))
            else:
                bases.append(B.make_base(frag, max_expr=4 if len(prog) < 60 else 2, max_var=2, max_drop=4, subject=prog, offset=off))
    return bases


def lattice(bases, tier, ctx):
    os.makedirs(os.path.join(ROOT, "build"), exist_ok=True)
    path = os.path.join(ROOT, "build", "bases.%d.json" % os.getpid())
    json.dump([{k: b[k] for k in ("S", "steps", "bodies")} for b in bases], open(path, "w"))
    try:
        res = tlc.run("CaitGen", "MC_CaitGen.cfg", workers=8, timeout=1800, env={"BASES_FILE": path},
                      overrides={"MaxSteps": "4"})
    finally:
        os.remove(path)
    tlc.require_ok(res, "generalisation lattice")
    ctx.add_tlc(res, "generalisation lattice: by-construction witness satisfies IsEmbedding in every state; Monotone")
    seen = {}
    for r in res.records:
        seen[(r["base"], tuple(sorted(r["gen"])))] = True
    return sorted(seen)


def validate(ws, src, prop, ctx, label):
    if not ws:
        return
    acc, rej, tres = tlc.validate_traces("TraceCait", "TraceCait.cfg", ws, timeout=1800)
    ctx.add_tlc(tres, "IsEmbedding evaluated on %d witnesses logged from real find_matches (%s)" % (len(ws), label))
    ctx.cov["traces_validated_against_impl"] += len(ws)
    if prop != "C10":
        return
    for tid, pos, mask in rej:
        r = src[tid - 1]
        names = clause_names(mask)
        ctx.violation("C10|%s" % "+".join(names),
                      "a match returned by find_matches is not an embedding (%s): pattern %r on program %r" % (
                          names, r["pattern"], r["program"][:160]), {"pattern": r["pattern"], "program": r["program"], "clauses": names})


def run(prop, tier, seed, ctx):
    from bind import cait as B
    ctx.assumptions += ["witness = AstMap.mappings / symbol_table / exp_table of each returned match, nodes identified by "
                        "CAIT's pre-order tree_id (cross-checked against an independent encoder)",
                        "a pattern `pass` and a bare ___ / __e__ statement are statement wildcards (documented); placeholders "
                        "for function/class/attribute names match any name",
                        "program space is sampled: pattern x program grid, plus every pattern derivable from 28 base "
                        "programs by <= 3-4 generalisation steps"]
    ctx.cov["rule"] = ("C10 case = one match returned by real find_matches (its witness is checked by TLC against "
                       "IsEmbedding); C11 case = one (base program or statement, set of generalisation steps) state of the "
                       "lattice enumerated by TLC, replayed on real find_matches; non-trivial = pattern with >= 1 placeholder "
                       "or >= 2 statements; distinct = distinct (pattern, program)")
    bases = build_bases(tier)
    states = lattice(bases, tier, ctx)
    cases = [(b, list(g)) for b, g in states]
    recs = shard_map("bind.cait", "gen_chunk", cases, extra={"bases": bases})
    ctx.cov["replayed_cases"] += len(recs)
    ws, src = [], []
    for r in recs:
        if "harness_error" in r:
            raise MachineryError("could not apply steps %s to base %d: %s" % (r["gen"], r["base"], r["harness_error"]))
        for w in r.get("witnesses", []):
            ws.append({k: w[k] for k in ("P", "S", "m", "sym", "exps")})
            src.append(r)
    ctx.count(len(recs), (json.dumps([r["program"], r.get("pattern")]) for r in recs if r["gen"]))
    ctx.sample({"kind": "derived pattern", "program": recs[len(recs) // 2]["program"], "steps": recs[len(recs) // 2]["gen"],
                "pattern": recs[len(recs) // 2].get("pattern")})
    if prop == "C11":
        for r in recs:
            steps = [bases[r["base"] - 1]["steps"][i - 1]["k"] for i in r["gen"]]
            shape = "+".join(sorted(set(steps))) or "verbatim"
            if r.get("n", 0) < 0:
                dunder = "__" in r["program"] and any("__" in t for t in r["program"].replace("'", " ").split(".")[1:])
                ctx.violation("C11|raises|%s" % r["error"].split(":")[0] + ("|dunder-attribute" if dunder else ""),
                              "find_matches raised %s for pattern %r derived from its own program %r" % (r["error"], r.get("pattern"), r["program"][:120]), r)
            elif r.get("n", 0) == 0:
                ctx.violation("C11|lost|%s" % shape, "pattern %r derived from program %r by steps %s has no match" % (
                    r.get("pattern"), r["program"][:120], steps), {k: r[k] for k in ("program", "pattern", "gen", "base")})
            elif not r.get("bound_to_original"):
                ctx.violation("C11|binding|%s" % shape, "no match of %r in %r binds the placeholders to what they replaced" % (
                    r.get("pattern"), r["program"][:120]), {k: r[k] for k in ("program", "pattern", "gen", "base")})
        validate(ws, src, prop, ctx, "derived patterns")
    else:
        pairs = [(p, s) for p in B.PATTERNS for s in B.PROGRAMS + B.UNDERSCORE_PROGRAMS]
        grid = shard_map("bind.cait", "record_chunk", pairs)
        ctx.cov["replayed_cases"] += len(grid)
        errs = [r for r in grid if r["n"] < 0]
        if len(errs) > len(grid) // 5:
            raise MachineryError("find_matches raised on %d of %d grid pairs, e.g. %s" % (len(errs), len(grid), errs[0].get("error")))
        for r in grid:
            if r["n"] > 0 and B.absent_content(r["pattern"], r["program"]):
                ctx.violation("C10|NoSpuriousMatch", "pattern %r has content that occurs nowhere in %r yet matched %d time(s)" % (
                    r["pattern"], r["program"][:120], r["n"]), r)
            for w in r["witnesses"]:
                ws.append({k: w[k] for k in ("P", "S", "m", "sym", "exps")})
                src.append(r)
        ctx.count(len(grid), (json.dumps([r["pattern"], r["program"]]) for r in grid if r["n"] > 0))
        validate(ws, src, prop, ctx, "pattern x program grid + derived patterns")
        # sub-matches: a second pattern matched inside a subtree bound by the first one, inheriting its bindings
        spairs = [(p, s) for p in B.OUTER_FOR_SUB for s in B.PROGRAMS + B.SUB_PROGRAMS]
        sgrid = shard_map("bind.cait", "record_chunk", spairs, extra="sub")
        ws2, src2, nerr = [], [], 0
        for r in sgrid:
            for w in r.get("sub", []):
                if "error" in w:
                    nerr += 1
                    continue
                if not w["m"]:
                    continue
                ws2.append({k: w[k] for k in ("P", "S", "m", "sym", "exps")})
                src2.append({"pattern": "%s  >>  %s (inside %s)" % (r["pattern"], w["sub"], w["inside"]), "program": r["program"]})
        if len(ws2) < 30:
            raise MachineryError("only %d sub-match witnesses were produced (%d errors)" % (len(ws2), nerr))
        ctx.cov["replayed_cases"] += len(ws2)
        ctx.count(len(ws2), (json.dumps([r["pattern"], r["program"]]) for r in src2))
        validate(ws2, src2, prop, ctx, "sub-patterns matched inside bound subtrees with inherited bindings")
        # binding self-test: a corrupted witness must be rejected
        if ws:
            bad = json.loads(json.dumps(ws[:40]))
            n_bad = 0
            for w in bad:
                if len(w["m"]) >= 2:
                    w["m"][0][1], w["m"][1][1] = w["m"][1][1], w["m"][0][1]
                    n_bad += 1
            bad = [w for w in bad if len(w["m"]) >= 2]
            acc, rej, _ = tlc.validate_traces("TraceCait", "TraceCait.cfg", bad, timeout=600)
            if acc > len(bad) // 2:
                raise MachineryError("binding self-test: %d of %d corrupted witnesses accepted" % (acc, len(bad)))
            ctx.notes.append("self-test: %d of %d corrupted witnesses rejected" % (len(bad) - acc, len(bad)))


def replay(prop, rep):
    from bind import cait as B
    from engine.core import setup_repo_path
    setup_repo_path()
    r = rep["replay"]
    if prop == "C10":
        pattern = r["pattern"].split("  >>  ")[0]
        out = B.record_chunk([(pattern, r["program"])], "sub" if "  >>  " in r["pattern"] else None)[0]
        ws = [w for w in out["witnesses"] + [w for w in out.get("sub", []) if "error" not in w] if w["m"]]
        if not ws:
            print("no witnesses")
            return 0
        acc, rej, _ = tlc.validate_traces("TraceCait", "TraceCait.cfg", [{k: w[k] for k in ("P", "S", "m", "sym", "exps")} for w in ws])
        print(json.dumps({"witnesses": len(ws), "rejected": [(tid, clause_names(mask)) for tid, pos, mask in rej]}))
        return 1 if rej else 0
    out = B.record_chunk([(r["pattern"], r["program"])], None)[0]
    print(json.dumps({"n": out["n"], "error": out.get("error")}, indent=1))
    return 1 if out["n"] <= 0 else 0
