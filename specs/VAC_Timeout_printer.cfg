SPECIFICATION Spec
CONSTANTS
  Design = "grader_bookkeeping"
  Kind = "printer"
  MaxSteps = 2
  Inject = "base"
  Handback = "per_run"
  NextRun = "plain"
  ImportThread = "inline"
  TimeoutPolicy = "timeout_wins"
  defaultInitValue = defaultInitValue
INVARIANT QuietReachable
CHECK_DEADLOCK FALSE
