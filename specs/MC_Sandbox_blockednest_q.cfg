SPECIFICATION Spec
CONSTANTS
  EffTokens = {"cb"}
  MaxEff = 1
  Modes = {"normal", "exc"}
  FnModes = {"normal"}
  MaxFns = 1
  Depth = 2
  InputOps = {}
  Entries = {"run", "call", "evaluate"}
  TracerStyles = {"none"}
  Threadeds = {FALSE}
  Givens = {}
  Blockeds = {"none", "time"}
  Flags = {}
INVARIANT Restored
INVARIANT Contained
INVARIANT NoSpuriousFb
INVARIANT OutputLedger
INVARIANT InputFifo
CONSTRAINT Export
CHECK_DEADLOCK FALSE
