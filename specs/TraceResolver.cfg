SPECIFICATION TSpec
CONSTANTS
  Cats = {}
  Prios = {}
  Trigs = {}
  Muteds = {}
  Kinds = {}
  Elses = {}
  Labels = {}
  Flds = {}
  Corrects = {}
  Valences = {}
  Scores = {}
  Unscoreds = {}
  Msgs = {"text"}
  SuppU = {}
  MaxFb = 0
  MaxSupp = 0
  Variant = "impl"
CONSTRAINT Progress
POSTCONDITION Post
CHECK_DEADLOCK FALSE
