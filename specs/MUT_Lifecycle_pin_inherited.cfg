SPECIFICATION Spec
CONSTANTS
  Cls = {"P", "I"}
  MsgKinds = {"explicit", "class"}
  Outs = {"T", "F"}
  DelayCls = {}
  Vals = {"o1"}
  Depth = 3
  MaxObjs = 1
  Parents = {"none"}
  Fmts = {"F1", "F2"}
  BadOverrides = FALSE
  SecondReport = FALSE
  Variant = "pin_inherited"
INVARIANT ExactlyOnce
INVARIANT RightList
INVARIANT Truth
INVARIANT ErrorPath
INVARIANT RaisesToCaller
INVARIANT MessageDerivation
INVARIANT OverridesRestored
CHECK_DEADLOCK FALSE
