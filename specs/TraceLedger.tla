----------------------------- MODULE TraceLedger -----------------------------
(* Output-ledger contract (C15) and stack emptiness (C05) evaluated on executions recorded while the
   repository's own test-suite runs with the guard on (one trace per sandbox instance). *)
EXTENDS TextOps, FiniteSets, TLC, Json, IOUtils, TLCExt
Traces == JsonDeserialize(IOEnv.TRACE_FILE)
NT == Len(Traces)
VARIABLES tid, l, raw, lines
tvars == <<tid, l, raw, lines>>
ASSUME \A i \in 1..(2 * NT) : TLCSet(i, 0)
Ev == Traces[tid][l]
More == l <= Len(Traces[tid])
TInit == tid \in 1..NT /\ l = 1 /\ raw = <<>> /\ lines = <<>>
LinesAfter(ls, share) == IF share = <<>> THEN ls ELSE ls \o LinesOf(share)
ExecOk == /\ Ev.raw = raw \o Ev.share /\ Ev.lines = LinesAfter(lines, Ev.share)
          /\ Ev.patches = 0 /\ Ev.stdouts = 0
TExec == More /\ Ev.e = "exec" /\ ExecOk /\ raw' = Ev.raw /\ lines' = Ev.lines
TClear == More /\ Ev.e = "clear" /\ raw' = <<>> /\ lines' = <<>>
TStep == (TExec \/ TClear) /\ l' = l + 1 /\ UNCHANGED tid
TSpec == TInit /\ [][TStep]_tvars
Clause == IF More /\ Ev.e = "exec" THEN (IF Ev.raw # raw \o Ev.share THEN 1 ELSE 0) + (IF Ev.lines # LinesAfter(lines, Ev.share) THEN 2 ELSE 0)
                                      + (IF Ev.patches # 0 \/ Ev.stdouts # 0 THEN 4 ELSE 0) ELSE 0
Progress == IF l > TLCGet(tid) THEN TLCSet(tid, l) /\ TLCSet(NT + tid, Clause) ELSE TRUE
Post == LET rej == {i \in 1..NT : TLCGet(i) < Len(Traces[i]) + 1} IN
        /\ PrintT(<<"ACCEPTED", NT - Cardinality(rej)>>)
        /\ \A i \in rej : PrintT(<<"REJECTED", i, TLCGet(i), ToString(TLCGet(NT + i))>>)
=============================================================================
