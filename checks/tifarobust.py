"""C18: tifa_analysis totality / completion / idempotence / determinism against specs/TifaRobust.tla."""
import json

from engine import tlc
from engine.core import shard_map
from engine.tlc import MachineryError


def run(prop, tier, seed, ctx):
    ctx.assumptions += ["the construct matrix (statement kind x expression kind x context; documented builtin functions and "
                        "methods x argument shape) is the stand-in for 'every program of the introductory subset'; exotic "
                        "language forms are only required not to raise and to be idempotent",
                        "histories of analyze(cell program) / analyze(other program) / analyze(a program whose analysis fails internally) / "
                        "clear_report up to the depth bound"]
    ctx.cov["rule"] = ("case = (matrix cell, history of analyze/clear operations) enumerated by TLC and replayed on real "
                       "tifa_analysis; non-trivial = history repeats an analysis or clears the report; distinct = distinct "
                       "(cell, history)")
    cfg = "MC_TifaRobust_q.cfg" if tier == "quick" else "MC_TifaRobust_t.cfg"
    res = tlc.run("MC_TifaRobust", cfg, workers=8, timeout=1500)
    tlc.require_ok(res, cfg)
    ctx.add_tlc(res, "cache protocol x construct matrix " + cfg)
    res2 = tlc.run("MC_TifaRobust", "MC_TifaRobust_ctor_q.cfg", workers=4, timeout=600)
    tlc.require_ok(res2, "MC_TifaRobust_ctor_q.cfg")
    ctx.add_tlc(res2, "constructor cells x histories with a program that subscripts the builtin constructors")
    # deep random histories (tlc -simulate): nine analyze/clear operations over all four program classes per cell
    num = 150 if tier == "quick" else 5000
    sres = tlc.run("MC_TifaRobust", "SIM_TifaRobust_deep.cfg", workers=4, timeout=900, simulate="num=%d" % num, extra=["-depth", "12", "-seed", str(1000 + seed)])
    tlc.require_ok(sres, "simulation SIM_TifaRobust_deep.cfg")
    ctx.add_tlc(sres, "simulation (%d histories of 9 operations) SIM_TifaRobust_deep.cfg" % (4 * num))
    if len(sres.records) < num:
        raise MachineryError("simulation exported only %d histories" % len(sres.records))
    uniq = {json.dumps([r["cell"], [(h["op"], h["p"]) for h in r["hist"]]], sort_keys=True): r for r in list(res.records) + list(sres.records)}
    # the constructor histories look for PROCESS-wide residue: each one is replayed in a process of its own
    uniq2 = {json.dumps([r["cell"], [(h["op"], h["p"]) for h in r["hist"]]], sort_keys=True): r for r in res2.records}
    cases = list(enumerate(uniq.values()))
    # fresh-interpreter baselines for the cells whose analysis could depend on what the process analysed before
    special = {json.dumps(r["cell"], sort_keys=True): r["cell"] for r in list(uniq.values()) + list(uniq2.values())
               if r["cell"]["k"] == "exotic" or (r["cell"]["k"] == "builtin" and r["cell"]["s"] in ("list", "dict", "set", "tuple", "str", "int", "float", "bool"))}
    baselines = dict(shard_map("bind.tifarobust", "baseline_chunk", list(special.values()), procs=12, chunk=1))
    ctx.notes.append("%d fresh-interpreter baselines" % len(baselines))
    mism = shard_map("bind.tifarobust", "replay_chunk", cases, extra={"baselines": baselines})
    cases2 = list(enumerate(uniq2.values()))
    mism += shard_map("bind.tifarobust", "replay_chunk", cases2, extra={"baselines": baselines}, chunk=1, fresh=True)
    cases = cases + cases2
    uniq.update(uniq2)
    ctx.cov["replayed_cases"] += len(cases)
    ctx.cov["traces_validated_against_impl"] += len(cases)
    ctx.count(len(cases), (k for k, r in uniq.items() if any(h["hit"] or h["op"] == "clear" for h in r["hist"])))
    mid = res.records[len(res.records) // 2]
    ctx.sample({"kind": "case", "cell": mid["cell"], "history": [(h["op"], h["p"]) for h in mid["hist"]]})
    ctx.cov["exhaustive"] = True
    for m in mism:
        c = m["cell"]
        if m["kind"] == "harness":
            raise MachineryError("%s: %s\n%s" % (c, m["detail"], m["source"]))
        ctx.violation("C18|%s|%s|%s" % (m["kind"], c["k"], c["s"] if c["k"] != "construct" else c["s"] + "+" + c["e"]),
                      "%s for cell %s at step %s: %s  ::  %s" % (m["kind"], json.dumps(c, sort_keys=True), m.get("step"), m["detail"],
                                                                 m["source"].replace("\n", " / ")[-200:]), m)


    mres = tlc.run("MC_TifaRobust", "MUT_TifaRobust_chain_not_reset.cfg", workers=2, timeout=300)
    if "StartsClean" not in mres.violated:
        raise MachineryError("mutant chain_not_reset did not violate StartsClean")
    ctx.notes.append("self-test: a recursion-detection stack that survives a failed analysis violates StartsClean")


def replay(prop, rep):
    from bind import tifarobust as B
    from engine.core import setup_repo_path
    setup_repo_path()
    r = rep["replay"]
    out = B.replay_chunk([(0, {"cell": r["cell"], "hist": [{"op": "analyze", "p": "c"}, {"op": "analyze", "p": "c"}]})], None)
    print(json.dumps(out, indent=1)[:2000])
    return 1 if out else 0
