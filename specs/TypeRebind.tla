------------------------------ MODULE TypeRebind ------------------------------
(***************************************************************************)
(* Scalar and sequence variables through a HISTORY of statements (C19).    *)
(* The operator table of TypeOps is about one expression over freshly      *)
(* bound variables; a program binds a name, binds it AGAIN to the result   *)
(* of an operator (total = total + 2.5) and only then operates on it.  In  *)
(* CPython the class of a name is the class of the value it holds NOW:     *)
(* ty maps the two names to that class.  A statement whose operator        *)
(* CPython rejects ends the program (outcome "err"); a value-dependent one *)
(* ends the history without obligation.                                    *)
(* CONTRACT (checked by the binding on every exported history): TIFA       *)
(* reports incompatible types iff the outcome is "err"; when it is silent, *)
(* the types it holds for a and c conform to the classes in ty.            *)
(***************************************************************************)
EXTENDS Integers, Sequences, FiniteSets, TLC, Json, PyTable
CONSTANTS Types, BinOps, MaxRebinds, UseK
VARIABLES ty, hist, outcome, phase, neg
vars == <<ty, hist, outcome, phase, neg>>

Init == /\ \E ta, tb \in Types : ty = [a |-> ta, b |-> tb, c |-> "unset", k |-> "int"] /\ hist = <<[s |-> "init", ta |-> ta, tb |-> tb]>>
        /\ outcome = "ok" /\ phase = "rebinding" /\ neg = FALSE
Rebinds == Len(hist) - 1
Running == outcome = "ok" /\ phase = "rebinding"
\* a = <a fresh value of class t>
Assign(t) == /\ Running /\ Rebinds < MaxRebinds /\ ty' = [ty EXCEPT !.a = t]
             /\ hist' = Append(hist, [s |-> "assign", t |-> t]) /\ neg' = FALSE /\ UNCHANGED <<outcome, phase>>
\* dest = l op r, one operand being a and the other b
Apply(dest, op, l, r, tag) ==
    \* neg: a may hold a negative number (it went through a subtraction); where the SIGN of the right operand decides
    \* what CPython does (a negative integer exponent gives a float, a negative shift count a ValueError) there is no
    \* obligation.  b keeps the positive value it started with.
    LET res == IF op \in {"**", "<<", ">>"} /\ r = "a" /\ neg /\ Num(ty.a) /\ Num(ty[l]) THEN "valuedep" ELSE Py(op, ty[l], ty[r]) IN
    /\ hist' = Append(hist, [s |-> tag, op |-> op, l |-> l, r |-> r])
    /\ IF res \in {"err", "valuedep"} THEN outcome' = res /\ UNCHANGED ty
       ELSE outcome' = "ok" /\ ty' = [ty EXCEPT ![dest] = res]
Rebind(op, l, r) == /\ Running /\ Rebinds < MaxRebinds /\ Apply("a", op, l, r, "rebind") /\ UNCHANGED phase
                    /\ neg' = (neg \/ op = "-")
\* the operation the history leads up to: c = l op r
Operate(op, l, r) == Running /\ Apply("c", op, l, r, "operate") /\ phase' = "done" /\ UNCHANGED neg
\* k = 3 is never bound again (UseK): an operand that is an int whatever became of b
Pairs == {<<"a", "b">>, <<"b", "a">>} \cup (IF UseK THEN {<<"a", "k">>, <<"k", "a">>} ELSE {})
Next == \/ \E t \in Types : Assign(t)
        \/ \E op \in BinOps, p \in Pairs : Rebind(op, p[1], p[2]) \/ Operate(op, p[1], p[2])
Spec == Init /\ [][Next]_vars

\* design facts: a name always has exactly one class, and a program that went wrong executes nothing further
TypeOK == /\ ty.a \in Types \cup {"bool"} /\ ty.b \in Types
          /\ (ty.c # "unset" => phase = "done" /\ outcome = "ok")
StopsAtError == [][outcome # "ok" => UNCHANGED vars]_vars
Finished == phase = "done" \/ outcome # "ok"
Export == Finished => PrintT(<<"VP", ToJson([hist |-> hist, ty |-> ty, outcome |-> outcome])>>)
=============================================================================
