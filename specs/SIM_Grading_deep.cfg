SPECIFICATION Spec
CONSTANTS
  Scripts <- AllScripts
  Subs = {"ok", "crash", "mathmut", "syntax", "unused", "parts", "mathy", "attrassign", "attrlit", "methodcall", "pltassign", "pltcall", "uselen"}
  MaxLen = 6
  ClearResets <- CodeClearResets
  Writes <- W
  Reads <- R
  SubWrites <- SW
  SubReads <- SR
INVARIANT PristineAtStart
CONSTRAINT Export
CHECK_DEADLOCK FALSE
