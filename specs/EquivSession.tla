---------------------------- MODULE EquivSession ----------------------------
(***************************************************************************)
(* Sessions of executions on one sandbox vs. the same calls made directly  *)
(* in a plain interpreter (C06): run() the program once, then call() its   *)
(* functions / evaluate() its globals in any order.  The student program   *)
(* keeps state in module globals: `total` is REBOUND by deposit() (global  *)
(* statement), `log` is MUTATED in place by note(), `scratch` is DELETED   *)
(* by forget(), `fresh` is CREATED by define().                            *)
(* Plain machine: one namespace.  Boxed machine, implementation-shaped:    *)
(* `data` is the namespace the sandbox evaluates expressions in, `fnNs`    *)
(* the namespace the student's functions were defined in (their           *)
(* __globals__).  In the code these are the same dictionary.  Flag         *)
(* "snapshot_namespace" (threaded executions only) models an execution     *)
(* that runs in a copy of `data` which is merged back with dict.update():  *)
(* rebinding, deleting and creating globals from inside a function then    *)
(* happens in the copy the functions were defined in, not in `data`.       *)
(* CONTRACT: after every step the two machines returned the same value     *)
(* and evaluate() of every global gives what the plain namespace holds.    *)
(***************************************************************************)
EXTENDS Integers, Sequences, FiniteSets, TLC, Json
CONSTANTS MaxOps, Threadeds, Flags

Ns0 == [total |-> 0, logn |-> 0, scratch |-> TRUE, fresh |-> FALSE]
VARIABLES threaded, plain, data, fnNs, shared, hist, lastEq
vars == <<threaded, plain, data, fnNs, shared, hist, lastEq>>

Init == /\ threaded \in Threadeds /\ plain = Ns0 /\ data = Ns0 /\ fnNs = Ns0
        /\ shared = ~("snapshot_namespace" \in Flags /\ threaded)     \* are data and fnNs one dictionary?
        /\ hist = <<>> /\ lastEq = TRUE

\* effect of calling function op on a namespace; returns <<new namespace, returned value>>
Apply(op, ns) ==
    CASE op = "deposit" -> <<[ns EXCEPT !.total = @ + 5], ns.total + 5>>
      [] op = "note" -> <<[ns EXCEPT !.logn = @ + 1], ns.logn + 1>>
      [] op = "forget" -> (IF ns.scratch THEN <<[ns EXCEPT !.scratch = FALSE], 1>> ELSE <<ns, -1>>)   \* -1: NameError
      [] op = "define" -> <<[ns EXCEPT !.fresh = TRUE], 7>>
      [] OTHER -> <<ns, 0>>
\* merging an execution's snapshot back with update(): can add and overwrite, never remove; a call's own snapshot
\* was copied from data, so for the names the function touched in fnNs nothing changes.  In-place mutation of `log`
\* is visible everywhere (same list object).
Call(op) ==
    /\ Len(hist) < MaxOps
    /\ LET p == Apply(op, plain)
           b == Apply(op, IF shared THEN data ELSE fnNs)
       IN /\ plain' = p[1]
          /\ IF shared THEN data' = b[1] /\ fnNs' = b[1]
             ELSE /\ fnNs' = b[1]
                  /\ data' = [data EXCEPT !.logn = b[1].logn]
          /\ lastEq' = (p[2] = b[2])
          /\ hist' = Append(hist, [op |-> op, ret |-> p[2]])
    /\ UNCHANGED <<threaded, shared>>
Next == \E op \in {"deposit", "note", "forget", "define"} : Call(op)
Spec == Init /\ [][Next]_vars

SameReturn == lastEq
SameGlobals == data = plain
Export == Len(hist) = MaxOps => PrintT(<<"VP", ToJson([threaded |-> threaded, hist |-> hist, final |-> plain])>>)
=============================================================================
