"""Binding of specs/ProxyOps.tla (C16): apply each operation to the real value (logged environment) and to the value
returned by evaluate()/call(), compare outcome, result and captured stdout."""
import io
import math
import operator
import random
import sys

STUDENT = '''
class Fwd:
    """defines the forward operators only"""
    def __init__(self, n=1): self.n = n
    def __add__(self, o): return 100 + self.n
    def __mul__(self, o): return 200 + self.n
    def __and__(self, o): return 300 + self.n
    def __lt__(self, o): return True
    def __eq__(self, o): return isinstance(o, Fwd)
    def __hash__(self): return 7
class Refl:
    """defines the reflected operators only"""
    def __radd__(self, o): return 400
    def __rmul__(self, o): return 500
    def __rsub__(self, o): return 600
    def __rrshift__(self, o): return 700
    def __rand__(self, o): return 800
class Vec(tuple):
    """a tuple subclass that overrides both + directions (element-wise)"""
    def __add__(self, o): return Vec(a + b for a, b in zip(self, o))
    def __radd__(self, o): return Vec(a + b for a, b in zip(o, self))
class Money:
    """a user object with an attribute literally named `value` (the proxy keeps its target under that name too)"""
    def __init__(self, value=5): self.value = value
    def __eq__(self, o): return isinstance(o, Money) and self.value == o.value
    def __lt__(self, o): return self.value < (o.value if isinstance(o, Money) else 7)
    def __hash__(self): return 1000 + self.value
    def __bool__(self): return False
    def __len__(self): return 2
    def __getitem__(self, i): return [self.value, 'cents'][i]
    def __iter__(self): return iter([self.value, 'cents'])
    def __contains__(self, x): return x == 'cents' or x == 3
    def __str__(self): return '$%d' % self.value
    def __repr__(self): return 'Money(%d)' % self.value
    def __int__(self): return self.value * 100
    def __float__(self): return self.value / 4
    def __index__(self): return 1
    def __add__(self, o): return Money(self.value + (o.value if isinstance(o, Money) else 1))
    def __radd__(self, o): return Money(self.value + 2)
    def __neg__(self): return Money(-self.value)
    def __abs__(self): return 'abs-money'
    def __format__(self, spec): return 'M' + format(self.value, spec)
    def __trunc__(self): return 77
    def __round__(self, n=None): return 'rounded-money'
class Bag:
    """iterable and nothing else: membership, list(), iter() fall back on __iter__"""
    def __iter__(self): return iter([1, 2, 3])
class Once:
    """a one-shot iterator (like a generator) with value-based identity, so two independent ones behave alike"""
    def __init__(self): self.it = iter([1, 2, 3])
    def __iter__(self): return self
    def __next__(self): return next(self.it)
    def __repr__(self): return 'Once()'
    def __hash__(self): return 11
    def __eq__(self, o): return isinstance(o, Once)
def ident(x):
    return x
def first(xs):
    return xs[0]
class Rec:
    """a record that looks unknown attributes up among its cells (KeyError, not AttributeError, for a missing one)"""
    def __init__(self):
        self.__dict__['cells'] = {'a': 1}
    def __getattr__(self, name): return self.__dict__['cells'][name]
    def __add__(self, o): return 99
    def __radd__(self, o): return 99
    def __mul__(self, o): return 98
    def __rmul__(self, o): return 98
    def __eq__(self, o): return isinstance(o, Rec)
    def __hash__(self): return 5
    def __repr__(self): return 'Rec()'
class Decline:
    """declines everything"""
    def __add__(self, o): return NotImplemented
    def __radd__(self, o): return NotImplemented
    def __mul__(self, o): return NotImplemented
    def __rmul__(self, o): return NotImplemented
'''
REPR = {"int": "3", "negint": "-2", "zero": "0", "float": "2.5", "bool": "True", "str": "'ab'", "list": "[1, 2]",
        "tuple": "(1, 2)", "dict": "{'a': 1}", "set": "{1, 2}", "none": "None", "complex": "(1+2j)",
        "sub": "Vec((10, 20))", "fwd": "Fwd()", "refl": "Refl()", "decline": "Decline()", "valobj": "Money(5)", "iterobj": "Bag()", "gen": "Once()", "inf": "float('inf')",
        # classes are values too: what evaluate('Money') hands back is used as the second argument of isinstance
        "clsint": "int", "clsuser": "Money", "record": "Rec()"}

BIN = {"add": operator.add, "sub": operator.sub, "mul": operator.mul, "truediv": operator.truediv,
       "floordiv": operator.floordiv, "mod": operator.mod, "divmod": divmod, "pow": operator.pow,
       "matmul": operator.matmul, "and": operator.and_, "or": operator.or_, "xor": operator.xor,
       "lshift": operator.lshift, "rshift": operator.rshift, "lt": operator.lt, "le": operator.le,
       "gt": operator.gt, "ge": operator.ge, "eq": operator.eq, "ne": operator.ne,
       "contains": lambda a, b: b in a,            # membership in the (proxied) container a
       "getitem": lambda a, b: a[b], "isinstance": lambda a, b: isinstance(a, type(b)),
       "format": lambda a, b: format(a, "" if not isinstance(b, str) else ">5"),
       "round2": lambda a, b: round(a, b),
       # the (proxied) class a as the classinfo argument
       "instanceof": lambda a, b: isinstance(b, a), "subclassof": lambda a, b: issubclass(type(b), a)}
UN = {"neg": operator.neg, "pos": operator.pos, "abs": abs, "invert": operator.invert, "len": len,
      "iter": lambda a: list(iter(a)), "hash": hash, "bool": bool, "str": str, "repr": repr, "int": int,
      "float": float, "complex": complex, "round": round, "trunc": math.trunc, "floor": math.floor,
      "ceil": math.ceil, "pow3": lambda a: pow(a, 2, 5), "index": lambda a: [10, 20, 30, 40][a],
      "reversed": lambda a: list(reversed(a)), "bytes": lambda a: bytes(a),
      "next": lambda a: next(a), "forloop": lambda a: [x for x in a], "unpack": lambda a: [*a]}
# placements that make sense: for these binary entries only the first operand can be the proxy
ONE_SHOT = {"gen"}
LEFT_ONLY = {"contains", "getitem", "isinstance", "format", "round2", "instanceof", "subclassof"}


class World:
    def __init__(self):
        from pedal.core.commands import clear_report, contextualize_report
        from pedal.sandbox import commands as S
        clear_report()
        contextualize_report(STUDENT)
        S.run()
        self.S = S
        self.sb = S.get_sandbox()

    def pair(self, cls):
        """(proxy from evaluate(), independent real value built the same way)"""
        proxy = self.S.evaluate(REPR[cls])
        if cls in ONE_SHOT:            # consumed by the first use: the real side gets its own, equal, object
            return proxy, unwrap(self.S.evaluate(REPR[cls]))
        # the real value is the very object behind the proxy (identity-based str/repr/hash would differ otherwise)
        real = unwrap(proxy)
        return proxy, real


def unwrap(v):
    from pedal.sandbox.result import SandboxResult
    seen = 0
    while type(v) is SandboxResult and seen < 5:
        v = v._actual_value            # the documented way to reach the proxied object
        seen += 1
    return v


def outcome(fn, *args):
    old = sys.stdout
    buf = io.StringIO()
    sys.stdout = buf
    try:
        try:
            res = fn(*args)
            st = "ok"
        except Exception as e:
            res = "%s" % type(e).__name__
            st = "err"
    finally:
        sys.stdout = old
    return st, res, len(buf.getvalue())


def same(a, b):
    a, b = unwrap(a), unwrap(b)
    if isinstance(a, float) and isinstance(b, float) and a != a and b != b:
        return True
    if type(a) is type(b) and type(a) in (tuple, list) and len(a) == len(b):
        return all(same(x, y) for x, y in zip(a, b))          # (NaN inside a result pair, e.g. divmod(inf, 1))
    try:
        if type(a) is not type(b) and not (isinstance(a, (int, float, complex)) and isinstance(b, (int, float, complex))):
            # Fwd()/Refl() instances: independent objects of the same class compare by class
            if type(a).__name__ == type(b).__name__:
                return True
            return False
        if type(a).__name__ in ("Fwd", "Refl", "Decline", "Bag"):
            return type(a).__name__ == type(b).__name__
        return bool(a == b)
    except Exception:
        return False


def observe(w, cell):
    op, place = cell["op"], cell["place"]
    pa, ra = w.pair(cell["a"])
    if place == "unary":
        fn = UN[op]
        real = outcome(fn, ra)
        prox = outcome(fn, pa)
    else:
        fn = BIN[op]
        pb, rb = w.pair(cell["b"])
        real = outcome(fn, ra, rb)
        # a one-shot operand used unproxied on the proxied side must not be the one the real side consumed
        if place == "left":
            prox = outcome(fn, pa, w.pair(cell["b"])[1] if cell["b"] in ONE_SHOT else rb)
        elif place == "right":
            prox = outcome(fn, w.pair(cell["a"])[1] if cell["a"] in ONE_SHOT else ra, pb)
        else:
            prox = outcome(fn, pa, pb)
    notimpl = prox[0] == "ok" and unwrap(prox[1]) is NotImplemented
    ev = {"real": real[0], "prox": prox[0], "equal": bool(real[0] == "ok" and prox[0] == "ok" and same(real[1], prox[1])),
          "notimpl": bool(notimpl), "out": prox[2]}
    detail = {"real_result": repr(real[1])[:80], "prox_result": repr(unwrap(prox[1]))[:80]}
    return ev, detail


def cells_chunk(cases, extra):
    from engine.core import setup_repo_path
    setup_repo_path()
    w = World()
    out = []
    for idx, cell in cases:
        if cell["op"] in LEFT_ONLY and cell["place"] != "left":
            continue
        try:
            ev, detail = observe(w, cell)
        except BaseException as e:
            ev, detail = {"real": "ok", "prox": "err", "equal": False, "notimpl": False, "out": 0}, {"harness": "%s: %s" % (type(e).__name__, e)}
        out.append({"cell": cell, "ev": ev, "detail": detail})
    return out


def chains_chunk(seeds, extra):
    """Random chains of up to 3 operations where the proxied result becomes the new proxy."""
    from engine.core import setup_repo_path
    setup_repo_path()
    w = World()
    out = []
    classes = ["int", "negint", "zero", "float", "bool", "str", "list", "tuple", "set", "complex", "fwd", "valobj", "sub", "iterobj"]
    binops = [o for o in BIN if o not in LEFT_ONLY]
    for seed in seeds:
        rng = random.Random(seed)
        cls = rng.choice(classes)
        p, r = w.pair(cls)
        events, steps = [], []
        for _ in range(rng.randint(2, 3)):
            if rng.random() < 0.3 and type(r).__name__ in ("Fwd", "Money", "Bag"):
                # (user objects: values with a literal repr are inlined into the call, which is C06's business)
                # the result goes back into student code as an argument and comes out again (directly, or inside a
                # list): what the student's function returns is then itself a proxy, wrapped once more
                how = rng.choice(["ident", "first"])
                prox = outcome(lambda a: w.S.call("ident", a) if how == "ident" else w.S.call("first", [a]), p)
                real = ("ok", r, 0)
                steps.append(["through", how, "-"])
                same_class = prox[0] == "ok" and isinstance(prox[1], type(r)) and type(unwrap(prox[1])) is type(r)
                events.append({"real": "ok", "prox": prox[0], "equal": bool(prox[0] == "ok" and same_class and same(r, prox[1])),
                               "notimpl": False, "out": prox[2]})
                if prox[0] != "ok":
                    break
                p = prox[1]
                continue
            if rng.random() < 0.7:
                op = rng.choice(binops)
                ocls = rng.choice(classes)
                _, other = w.pair(ocls)
                left = rng.random() < 0.5
                real = outcome(BIN[op], r, other) if left else outcome(BIN[op], other, r)
                prox = outcome(BIN[op], p, other) if left else outcome(BIN[op], other, p)
                steps.append([op, "left" if left else "right", ocls])
            else:
                op = rng.choice(list(UN))
                real = outcome(UN[op], r)
                prox = outcome(UN[op], p)
                steps.append([op, "unary", "-"])
            notimpl = prox[0] == "ok" and unwrap(prox[1]) is NotImplemented
            events.append({"real": real[0], "prox": prox[0],
                           "equal": bool(real[0] == "ok" and prox[0] == "ok" and same(real[1], prox[1])),
                           "notimpl": bool(notimpl), "out": prox[2]})
            if real[0] != "ok" or prox[0] != "ok":
                break
            p, r = prox[1], real[1]
        out.append({"seed": seed, "start": cls, "steps": steps, "events": events})
    return out
