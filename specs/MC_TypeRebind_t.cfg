SPECIFICATION Spec
CONSTANTS
  Types = {"int", "float", "str", "list", "tuple"}
  BinOps = {"+", "-", "*", "/", "//", "%", "**", "<<", ">>", "|", "^", "&", "@"}
  MaxRebinds = 2
  UseK = FALSE
INVARIANT TypeOK
PROPERTY StopsAtError
CONSTRAINT Export
CHECK_DEADLOCK FALSE
