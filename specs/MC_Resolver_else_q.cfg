SPECIFICATION Spec
CONSTANTS
  Cats = {"runtime", "positive"}
  Prios = {"none"}
  Trigs = {FALSE, TRUE}
  Muteds = {FALSE}
  Kinds = {"Mistake", "Compliment"}
  Elses = {FALSE, TRUE}
  Labels = {"a"}
  Flds = {"f1"}
  Corrects = {"T", "F", "N"}
  Valences = {"neg", "pos"}
  Scores = {"none"}
  Unscoreds = {FALSE}
  Msgs = {"text"}
  SuppU <- SuppScore
  MaxFb = 2
  MaxSupp = 1
  Variant = "impl"
INVARIANT ShownIsBest
INVARIANT DefaultIffNone
INVARIANT CorrectIff
INVARIANT ScoreIs
INVARIANT NoCorrectWithVisibleNegative
INVARIANT RankAgrees
CONSTRAINT Export
CHECK_DEADLOCK FALSE
