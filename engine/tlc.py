"""Run TLC, parse its statistics, exported "VP" records, invariant violations and coverage.

Everything a registered check needs lives under /verif (build/ holds TLC scratch and export
caches keyed by the hash of spec + cfg + overrides); nothing is kept in /tmp.
"""
import hashlib
import json
import os
import re
import shutil
import subprocess
import time

ROOT = os.path.dirname(os.path.dirname(os.path.abspath(__file__)))
SPECS = os.path.join(ROOT, "specs")
BUILD = os.path.join(ROOT, "build")
JAR = "/opt/veriftools/tla/tla2tools.jar:/opt/veriftools/tla/CommunityModules-deps.jar"


class MachineryError(Exception):
    """The checking machinery itself failed (exit code 2, never a VIOLATION)."""


class TlcResult:
    def __init__(self):
        self.stdout = ""
        self.states_generated = 0
        self.distinct_states = 0
        self.depth = 0
        self.records = []          # exported VP records (dicts)
        self.violated = []         # names of violated invariants / properties
        self.errors = []           # TLC error text blocks
        self.coverage = {}         # action name -> (distinct, total)
        self.wall_s = 0.0
        self.ok = False
        self.cmd = ""
        self.printed = []          # other PrintT tuples (raw text)


def _sha(*parts):
    h = hashlib.sha256()
    for p in parts:
        h.update(p if isinstance(p, bytes) else str(p).encode())
        h.update(b"\0")
    return h.hexdigest()[:20]


def render_cfg(template_path, overrides=None):
    """Read a cfg; `overrides` maps constant name -> literal TLA+ text replacing `NAME = ...`/`NAME <- ...`."""
    text = open(template_path).read()
    for name, val in (overrides or {}).items():
        pat = re.compile(r"^(\s*)%s\s*(=|<-)\s*.*$" % re.escape(name), re.M)
        if not pat.search(text):
            raise MachineryError("cfg %s has no constant %s" % (template_path, name))
        text = pat.sub(lambda m: "%s%s = %s" % (m.group(1), name, val), text)
    return text


_VP_RE = re.compile(r'^<<"VP", (".*")>>$')


def parse_output(out, res):
    for line in out.splitlines():
        if line.startswith('<<"VP", '):
            m = _VP_RE.match(line.strip())
            if m:
                try:
                    res.records.append(json.loads(json.loads(m.group(1))))
                    continue
                except Exception:
                    pass
            res.printed.append(line)
        elif line.startswith("<<"):
            res.printed.append(line)
    m = re.search(r"(\d+) states generated, (\d+) distinct states found", out)
    if m:
        res.states_generated = int(m.group(1))
        res.distinct_states = int(m.group(2))
    m = re.search(r"The depth of the complete state graph search is (\d+)", out)
    if m:
        res.depth = int(m.group(1))
    res.violated = re.findall(r"Invariant (\S+) is violated", out)
    res.violated += re.findall(r"Action property (\S+) is violated", out)
    res.violated += re.findall(r"Temporal properties were violated", out)
    if "The postcondition" in out and "violated" in out:
        res.violated.append("POSTCONDITION")
    for m in re.finditer(r"^<(\w+) line \d+, col \d+ to line \d+, col \d+ of module \w+>: (\d+):(\d+)", out, re.M):
        res.coverage[m.group(1)] = (int(m.group(2)), int(m.group(3)))
    if "Error:" in out:
        res.errors = re.findall(r"Error: (.*)", out)
    res.ok = ("Model checking completed. No error has been found." in out) or \
             ("Finished computing initial states" in out and not res.errors and not res.violated and "states generated" in out)


def run(spec, cfg, overrides=None, workers=8, timeout=600, env=None, extra=None,
        cont=False, coverage=False, simulate=None, deque=False, cache=False, tag=None):
    """Run TLC on specs/<spec>.tla with cfg (path relative to specs/).  Returns TlcResult."""
    os.makedirs(BUILD, exist_ok=True)
    spec_path = os.path.join(SPECS, spec + ".tla")
    cfg_text = render_cfg(os.path.join(SPECS, cfg), overrides)
    deps = b""
    for fn in sorted(os.listdir(SPECS)):
        if fn.endswith(".tla"):
            deps += open(os.path.join(SPECS, fn), "rb").read()
    key = _sha(deps, cfg_text, spec, json.dumps(extra or []), simulate, cont, json.dumps(sorted((env or {}).items())))
    cache_file = os.path.join(BUILD, "cache_%s_%s.json" % (tag or spec, key))
    if cache and os.path.exists(cache_file):
        d = json.load(open(cache_file))
        res = TlcResult()
        res.__dict__.update(d)
        res.cached = True
        return res
    work = os.path.join(BUILD, "tmp.%d.%s" % (os.getpid(), key[:8]))
    shutil.rmtree(work, ignore_errors=True)
    os.makedirs(work)
    try:
        for fn in os.listdir(SPECS):
            if fn.endswith(".tla"):
                shutil.copy(os.path.join(SPECS, fn), work)
        cfg_path = os.path.join(work, "run.cfg")
        open(cfg_path, "w").write(cfg_text)
        # (TLC leaves an empty tlc-<n> directory in java.io.tmpdir per run: keep those inside the work directory)
        os.makedirs(os.path.join(work, "jtmp"), exist_ok=True)
        java = ["java", "-XX:+UseParallelGC", "-Xmx8g", "-Xss64m", "-Djava.io.tmpdir=" + os.path.join(work, "jtmp")]
        if deque:
            java.append("-Dtlc2.tool.queue.IStateQueue=StateDeque")
        cmd = java + ["-cp", JAR, "tlc2.TLC", "-config", "run.cfg", "-workers", str(workers),
                      "-metadir", os.path.join(work, "meta"), "-noGenerateSpecTE"]
        if cont:
            cmd.append("-continue")
        if coverage:
            cmd += ["-coverage", "1"]
        if simulate:
            cmd += ["-simulate", simulate]
        cmd += list(extra or [])
        cmd.append(spec + ".tla")
        e = dict(os.environ)
        e.update(env or {})
        t0 = time.time()
        try:
            p = subprocess.run(cmd, cwd=work, env=e, stdout=subprocess.PIPE, stderr=subprocess.STDOUT,
                               timeout=timeout, text=True, errors="replace")
            out = p.stdout
        except subprocess.TimeoutExpired as ex:
            out = (ex.stdout or b"")
            if isinstance(out, bytes):
                out = out.decode(errors="replace")
            out += "\nTLC-TIMEOUT\n"
        res = TlcResult()
        res.wall_s = round(time.time() - t0, 2)
        res.stdout = out if len(out) < 200000 else out[:20000] + "\n...[truncated]...\n" + out[-60000:]
        res.cmd = "tlc -config %s -workers %s %s%s.tla" % (cfg, workers, ("-simulate %s " % simulate) if simulate else "", spec)
        parse_output(out, res)
        if "TLC-TIMEOUT" in out and not simulate:
            res.ok = False
            res.errors.append("timeout after %ss" % timeout)
        if simulate and "TLC-TIMEOUT" in out:
            res.ok = not res.violated and not [x for x in res.errors if "timeout" not in x]
        res.cached = False
        if cache and res.ok:
            json.dump({k: v for k, v in res.__dict__.items() if k != "cached"}, open(cache_file, "w"))
        return res
    finally:
        shutil.rmtree(work, ignore_errors=True)


def require_ok(res, what, allow_violations=False):
    if res.errors and not (allow_violations and res.violated):
        bad = [e for e in res.errors if "violated" not in e]
        if bad or not allow_violations:
            raise MachineryError("%s: TLC error: %s\n%s" % (what, res.errors[:3], res.stdout[-3000:]))
    if not res.ok and not allow_violations:
        raise MachineryError("%s: TLC did not complete: %s" % (what, res.stdout[-3000:]))
    return res


def validate_traces(trace_spec, cfg, traces, workers=1, timeout=600, overrides=None, deque=False):
    """Batch trace validation.  `traces` is a list of traces (each a list of event dicts or one dict).

    The trace spec reads IOEnv.TRACE_FILE, has variables tid/l, tracks per-trace progress in TLCSet
    registers and prints <<"REJECTED", tid, pos, clause>> tuples from its POSTCONDITION, plus
    <<"ACCEPTED", n>>.  Returns (n_accepted, [(tid, pos, clause)], TlcResult).
    """
    os.makedirs(BUILD, exist_ok=True)
    tf = os.path.join(BUILD, "traces.%d.%s.json" % (os.getpid(), _sha(time.time(), trace_spec)[:8]))
    json.dump(traces, open(tf, "w"))
    try:
        res = run(trace_spec, cfg, overrides=overrides, workers=workers, timeout=timeout,
                  env={"TRACE_FILE": tf}, deque=deque)
    finally:
        try:
            os.remove(tf)
        except OSError:
            pass
    rejected = []
    accepted = None
    for line in res.printed:
        m = re.match(r'<<"REJECTED", (\d+), (\d+), "?([^">]*)"?>>', line)
        if m:
            rejected.append((int(m.group(1)), int(m.group(2)), m.group(3)))
        m = re.match(r'<<"ACCEPTED", (\d+)>>', line)
        if m:
            accepted = int(m.group(1))
    if accepted is None:
        raise MachineryError("trace validation %s produced no verdict:\n%s" % (trace_spec, res.stdout[-4000:]))
    if accepted + len(rejected) != len(traces):
        raise MachineryError("trace validation %s: verdicts %d+%d != %d traces\n%s" % (
            trace_spec, accepted, len(rejected), len(traces), res.stdout[-3000:]))
    return accepted, rejected, res
