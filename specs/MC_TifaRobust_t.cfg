SPECIFICATION Spec
CONSTANTS
  Cells <- AllCells
  Ops = {"A", "C"}
  MaxOps = 5
INVARIANT RanIsDistinct
CONSTRAINT Export
CHECK_DEADLOCK FALSE
