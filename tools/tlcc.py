#!/venv/bin/python
"""tlcc.py <Spec> <cfg>...: run TLC with -continue and list all violated invariants."""
import sys; sys.path.insert(0, '/verif')
from engine import tlc
for c in sys.argv[2:]:
    r = tlc.run(sys.argv[1], c, workers=8, timeout=300, cont=True)
    print(c, "distinct=%d" % r.distinct_states, "%.1fs" % r.wall_s, sorted(set(r.violated)), [e[:60] for e in r.errors if 'violated' not in e and 'behavior' not in e][:2])
