------------------------------ MODULE TifaFlow ------------------------------
(***************************************************************************)
(* TIFA's flow analysis on the branch subset (assignments, copies, prints, *)
(* nested if/else with opaque or variable conditions), built token by      *)
(* token.  Two layers advance in lock step:                                *)
(*  - GROUND TRUTH (contract, C09): the set of concrete stores, one per    *)
(*    combination of branch outcomes, with per-variable "defined" and      *)
(*    "read since last assignment" flags; every read records over which    *)
(*    paths its variable was assigned.                                      *)
(*  - TIFA layer: a transcription of store_variable / load_variable /      *)
(*    NewPath / merge_paths / combine_states / search_parents /            *)
(*    _finish_scope of pedal/tifa/tifa_core.py over name_map, path_chain,  *)
(*    path_parents with the three-valued read/set/over state.              *)
(* TLC checks that the TIFA layer is EXACT w.r.t. the ground truth         *)
(* (ReadsExact, UnusedExact) on every program up to the bounds.            *)
(***************************************************************************)
EXTENDS Naturals, Sequences, FiniteSets, TLC, Json
CONSTANTS Vars, MaxTok, MaxDepth, Types, CondVars, Copies, Flags
\* tokens: [t |-> "A", v |-> x] assign ; [t |-> "R", v |-> x] read ; [t|->"I"] if <opaque cond> ; [t|->"E"] else ; [t|->"X"] end
VARIABLES prog, open,      \* program so far; stack of open blocks ("then"/"else")
          gt, gtStack, gtReads,   \* ground truth: set of stores; saved sets; per-read verdict sets
          nm, chain, parents, nextPath, tStack, tIssues  \* TIFA layer
vars == <<prog, open, gt, gtStack, gtReads, nm, chain, parents, nextPath, tStack, tIssues>>

Absent == [r |-> "absent", s |-> "absent", o |-> "absent"]
Store0 == [v \in Vars |-> [def |-> FALSE, rd |-> FALSE]]   \* rd: read since last assignment

Init == /\ prog = <<>> /\ open = <<>>
        /\ gt = {Store0} /\ gtStack = <<>> /\ gtReads = <<>>
        /\ nm = (0 :> [v \in Vars |-> Absent]) /\ chain = <<0>> /\ parents = <<>> /\ nextPath = 1
        /\ tStack = <<>> /\ tIssues = {}

Len1 == Len(prog) + 1
\* ---------- TIFA layer helpers (transcribed from tifa_core.py)
HasN(n, p, v) == n[p][v] # Absent
\* find_variable_scope: first path in chain that has v
FindIdxN(n, v) == IF \E i \in 1..Len(chain): HasN(n, chain[i], v)
                  THEN CHOOSE i \in 1..Len(chain): HasN(n, chain[i], v) /\ \A j \in 1..(i-1): ~HasN(n, chain[j], v)
                  ELSE 0
Cur == chain[1]
Rso(a, b) == IF a = b THEN a ELSE "maybe"
Weaken(x) == IF x = "no" THEN "no" ELSE "maybe"
Combine(l, r) == IF r = Absent
                 THEN (IF "keep_when_missing" \in Flags THEN l     \* mutant: else-less `if` defines
                       ELSE [r |-> Weaken(l.r), s |-> Weaken(l.s), o |-> Weaken(l.o)])
                 ELSE [r |-> Rso(l.r, r.r), s |-> Rso(l.s, r.s), o |-> Rso(l.o, r.o)]

TStoreN(n, v) == LET i == FindIdxN(n, v) IN
   IF i = 0 THEN [n EXCEPT ![Cur][v] = [r |-> "no", s |-> "yes", o |-> "no"]]
   ELSE LET old == n[chain[i]][v] IN
        IF old.s = "yes" /\ old.r = "no" THEN [n EXCEPT ![Cur][v] = [old EXCEPT !.o = "yes"]]
        ELSE [n EXCEPT ![Cur][v] = [old EXCEPT !.s = "yes", !.r = "no"]]
TLoadIssueN(n, v, tok) == LET i == FindIdxN(n, v) IN
   IF i = 0 THEN {<<"init", v, tok>>}
   ELSE LET old == n[chain[i]][v] IN
        (IF old.s = "no" THEN {<<"init", v, tok>>} ELSE {}) \cup (IF old.s = "maybe" THEN {<<"possible", v, tok>>} ELSE {})
TLoadN(n, v) == LET i == FindIdxN(n, v) IN
   IF i = 0 THEN [n EXCEPT ![Cur][v] = [r |-> "yes", s |-> "no", o |-> "no"]]
   ELSE [n EXCEPT ![Cur][v] = [n[chain[i]][v] EXCEPT !.r = "yes"]]

\* ---------- actions
CanAdd == Len(prog) < MaxTok
Tok(t, v, w) == [t |-> t, v |-> v, w |-> w]
GtRead(g, v) == {[st EXCEPT ![v].rd = TRUE] : st \in g}
GtAssign(g, v) == {[st EXCEPT ![v] = [def |-> TRUE, rd |-> FALSE]] : st \in g}
ReadRec(v) == [tok |-> Len1, v |-> v, seen |-> {st[v].def : st \in gt}]

Assign(v, ty) == /\ CanAdd /\ prog' = Append(prog, Tok("A", v, ty))
                 /\ gt' = GtAssign(gt, v)
                 /\ nm' = TStoreN(nm, v)
                 /\ UNCHANGED <<open, gtStack, gtReads, chain, parents, nextPath, tStack, tIssues>>
Read(v) == /\ CanAdd /\ prog' = Append(prog, Tok("R", v, "-"))
           /\ gtReads' = Append(gtReads, ReadRec(v))
           /\ gt' = GtRead(gt, v)
           /\ nm' = TLoadN(nm, v) /\ tIssues' = tIssues \cup TLoadIssueN(nm, v, Len1)
           /\ UNCHANGED <<open, gtStack, chain, parents, nextPath, tStack>>
\* x = y : the value is visited (load y) before the target is stored
Copy(x, y) == /\ CanAdd /\ prog' = Append(prog, Tok("C", x, y))
              /\ gtReads' = Append(gtReads, ReadRec(y))
              /\ gt' = GtAssign(GtRead(gt, y), x)
              /\ nm' = TStoreN(TLoadN(nm, y), x) /\ tIssues' = tIssues \cup TLoadIssueN(nm, y, Len1)
              /\ UNCHANGED <<open, gtStack, chain, parents, nextPath, tStack>>
\* `if c:` reads c (a read like any other) before the branches; "-" is an opaque condition (input())
IfBegin(c) ==
    LET nm0 == IF c = "-" THEN nm ELSE TLoadN(nm, c) IN
    /\ CanAdd /\ Len(open) < MaxDepth /\ prog' = Append(prog, Tok("I", c, "-"))
    /\ open' = <<"then">> \o open
    /\ gtReads' = IF c = "-" THEN gtReads ELSE Append(gtReads, ReadRec(c))
    /\ LET g0 == IF c = "-" THEN gt ELSE GtRead(gt, c) IN
       /\ gtStack' = <<[pre |-> g0, thenOut |-> {}]>> \o gtStack /\ gt' = g0
    /\ tIssues' = IF c = "-" THEN tIssues ELSE tIssues \cup TLoadIssueN(nm, c, Len1)
    /\ nm' = (nextPath :> [v \in Vars |-> Absent]) @@ nm0
    /\ chain' = <<nextPath>> \o chain /\ parents' = Append(parents, <<nextPath, Cur>>)
    /\ tStack' = <<[parent |-> Cur, ifp |-> nextPath, elp |-> 0]>> \o tStack
    /\ nextPath' = nextPath + 1
\* leaving then-branch, entering else-branch (explicit 'else:')
Else == /\ CanAdd /\ open # <<>> /\ Head(open) = "then" /\ prog[Len(prog)].t # "I" \* non-empty then body
        /\ prog' = Append(prog, Tok("E", "-", "-"))
        /\ open' = <<"else">> \o Tail(open)
        /\ gtStack' = <<[Head(gtStack) EXCEPT !.thenOut = gt]>> \o Tail(gtStack) /\ gt' = Head(gtStack).pre
        /\ nm' = (nextPath :> [v \in Vars |-> Absent]) @@ nm
        /\ chain' = <<nextPath>> \o Tail(chain) /\ parents' = Append(parents, <<nextPath, Head(tStack).parent>>)
        /\ tStack' = <<[Head(tStack) EXCEPT !.elp = nextPath]>> \o Tail(tStack)
        /\ nextPath' = nextPath + 1
        /\ UNCHANGED <<gtReads, tIssues>>
End == /\ CanAdd /\ open # <<>> /\ prog[Len(prog)].t \notin {"I", "E"}
       /\ prog' = Append(prog, Tok("X", "-", "-"))
       /\ open' = Tail(open)
       /\ LET fr == Head(gtStack) IN
            gt' = IF Head(open) = "then" THEN gt \cup fr.pre ELSE fr.thenOut \cup gt
       /\ gtStack' = Tail(gtStack)
       /\ LET tf == Head(tStack)
              hadElse == Head(open) = "else"
              elp == IF hadElse THEN tf.elp ELSE nextPath
              nm1 == IF hadElse THEN nm ELSE (nextPath :> [v \in Vars |-> Absent]) @@ nm
              par1 == IF hadElse THEN parents ELSE Append(parents, <<nextPath, tf.parent>>)
              parOf(p) == LET i == CHOOSE i \in 1..Len(par1): par1[i][1] = p IN par1[i][2]
              hasPar(p) == \E i \in 1..Len(par1): par1[i][1] = p
              RECURSIVE up(_, _)
              up(p, v) == IF nm1[p][v] # Absent THEN nm1[p][v] ELSE IF hasPar(p) THEN up(parOf(p), v) ELSE Absent
              newParent == [v \in Vars |->
                   IF nm1[tf.ifp][v] # Absent THEN Combine(nm1[tf.ifp][v], up(elp, v))
                   ELSE IF nm1[elp][v] # Absent THEN Combine(nm1[elp][v], up(tf.parent, v))
                   ELSE nm1[tf.parent][v]]
          IN /\ nm' = [nm1 EXCEPT ![tf.parent] = newParent]
             /\ parents' = par1
             /\ nextPath' = IF hadElse THEN nextPath ELSE nextPath + 1
       /\ chain' = Tail(chain) /\ tStack' = Tail(tStack)
       /\ UNCHANGED <<gtReads, tIssues>>

Next == \/ \E v \in Vars : (\E ty \in Types : Assign(v, ty)) \/ Read(v)
        \/ \E x \in Vars, y \in Vars : Copies /\ Copy(x, y)
        \/ \E c \in CondVars \cup {"-"} : IfBegin(c)
        \/ Else \/ End
Spec == Init /\ [][Next]_vars

Complete == open = <<>>
\* ---------- contract: ground-truth verdicts
GtVerdict(rd) == IF rd.seen = {TRUE} THEN "none" ELSE IF rd.seen = {FALSE} THEN "init" ELSE "possible"
TVerdict(tok, v) == IF <<"init", v, tok>> \in tIssues THEN "init" ELSE IF <<"possible", v, tok>> \in tIssues THEN "possible" ELSE "none"
ReadsExact == \A i \in 1..Len(gtReads): TVerdict(gtReads[i].tok, gtReads[i].v) = GtVerdict(gtReads[i])
GtUnused(v) == IF \A s \in gt: s[v].def /\ ~s[v].rd THEN "must" ELSE IF \A s \in gt: s[v].def /\ s[v].rd THEN "mustnot" ELSE "dontcare"
TUnused(v) == nm[0][v] # Absent /\ nm[0][v].r = "no"
UnusedExact == Complete => \A v \in Vars: (GtUnused(v) = "must" => TUnused(v)) /\ (GtUnused(v) = "mustnot" => ~TUnused(v))
Export == Complete /\ Len(prog) > 0 => PrintT(<<"VP", ToJson([prog |-> prog, reads |-> [i \in 1..Len(gtReads) |-> [tok |-> gtReads[i].tok, v |-> gtReads[i].v, verdict |-> GtVerdict(gtReads[i])]], unused |-> [v \in Vars |-> GtUnused(v)]])>>)
====
