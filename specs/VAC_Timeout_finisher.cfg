SPECIFICATION Spec
CONSTANTS
  Design = "grader_bookkeeping"
  Kind = "finisher"
  MaxSteps = 2
  defaultInitValue = defaultInitValue
INVARIANT QuietReachable
CHECK_DEADLOCK FALSE
