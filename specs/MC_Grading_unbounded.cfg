SPECIFICATION Spec
CONSTANTS
  Scripts <- AllScripts
  Subs = {"ok", "crash", "mathmut", "syntax", "unused", "parts", "mathy", "attrassign", "attrlit", "methodcall", "pltassign", "pltcall", "uselen", "modset", "modget", "branch_if", "branch_else"}
  MaxLen = 1000000
  ClearResets <- CodeClearResets
  Writes <- W
  Reads <- R
  SubWrites <- SW
  SubReads <- SR
INVARIANT PristineAtStart
VIEW StateView
CHECK_DEADLOCK FALSE
