#!/bin/bash
# import_seed.sh <id> <k> : copy a confirmed seeded change into /verif/seeded/<id>-<k>/
id=$1; k=$2; src=${WTBASE:-/tmp/wt}/$id/_seed; dst=/verif/seeded/$id-${K2:-$k}
mkdir -p $dst
cp $src/patch$k.diff $dst/patch.diff
sed "s#${WTBASE:-/tmp/wt}/$id#/repo#g" $src/demo$k.py > $dst/demo.py
/venv/bin/python - "$src/meta$k.json" "$dst/meta.json" "$id" <<'P'
import json,sys
m=json.load(open(sys.argv[1]))
out={"property":sys.argv[3],"summary":m.get("summary"),"needs":m.get("needs"),"files":m.get("files"),
     "confirmed_by_me":{"ran":"tools/verify_seeds.sh in a scratch worktree of /repo (git worktree under /tmp/wt): demo exits 0 unpatched and 1 patched; full pytest suite with the patch: 493 passed / same 10 always-failing tests",
                        "demo_unpatched_exit":0,"demo_patched_exit":1,"tests_after":"493 passed, 10 failed (unchanged set)"},
     "origin":"independent sub-agent given only the property text and a scratch worktree"}
json.dump(out,open(sys.argv[2],"w"),indent=1)
P
echo imported $dst
