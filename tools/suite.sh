#!/bin/bash
# run the pinned repository suite (guard off) on a tree (default /repo); prints the summary line
cd "${1:-/repo}" && env -u PEDAL_EDU_PEDAL_VERIF /venv/bin/python -m pytest -q -p no:cacheprovider --timeout=900 --continue-on-collection-errors 2>&1 | tail -1
