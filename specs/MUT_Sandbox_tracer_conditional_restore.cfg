SPECIFICATION Spec
CONSTANTS
  EffTokens = {"pa", "st"}
  MaxEff = 1
  Modes = {"normal", "exc", "sysexit", "baseKbd", "recursion", "syntax"}
  FnModes = {"normal", "exc", "baseCustom"}
  MaxFns = 1
  Depth = 3
  InputOps = {}
  Entries = {"run", "call", "evaluate"}
  TracerStyles = {"none", "native", "calls"}
  Threadeds = {FALSE}
  Givens = {}
  Blockeds = {"none"}
  Flags = {"tracer_conditional_restore"}
INVARIANT Restored
INVARIANT Contained
INVARIANT NoSpuriousFb
INVARIANT OutputLedger
INVARIANT InputFifo
CHECK_DEADLOCK FALSE
