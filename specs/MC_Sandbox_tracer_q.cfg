SPECIFICATION Spec
CONSTANTS
  EffTokens = {"pa", "st", "im", "cb", "dm", "rso"}
  MaxEff = 1
  Modes = {"normal", "exc", "sysexit", "baseKbd", "recursion", "syntax"}
  FnModes = {"normal", "exc", "baseCustom"}
  MaxFns = 1
  Depth = 3
  InputOps = {}
  Entries = {"run", "call", "evaluate"}
  TracerStyles = {"none", "native", "calls"}
  Threadeds = {FALSE, TRUE}
  Givens = {}
  Blockeds = {"none"}
  Flags = {}
INVARIANT Restored
INVARIANT Contained
INVARIANT NoSpuriousFb
INVARIANT OutputLedger
INVARIANT InputFifo
CONSTRAINT Export
CHECK_DEADLOCK FALSE
