SPECIFICATION Spec
CONSTANTS
  EffTokens = {"pa", "st", "im"}
  MaxEff = 1
  Modes = {"normal", "exc", "sysexit", "baseKbd", "recursion", "syntax"}
  FnModes = {"normal", "exc", "baseCustom"}
  MaxFns = 1
  Depth = 3
  InputOps = {}
  Entries = {"run", "call", "evaluate"}
  TracerStyles = {"none", "native", "calls"}
  Threadeds = {FALSE, TRUE}
  Givens = {}
  Blockeds = {"none"}
  Flags = {"tracer_not_reentrant"}
INVARIANT Restored
CHECK_DEADLOCK FALSE
