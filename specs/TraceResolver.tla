--------------------------- MODULE TraceResolver ---------------------------
(* Batch trace validation of recorded report/resolver API histories against the Resolver contract. *)
EXTENDS Resolver, IOUtils, TLCExt

Traces == JsonDeserialize(IOEnv.TRACE_FILE)
NT == Len(Traces)
VARIABLES tid, l
tvars == <<fbs, supp, result, tid, l>>

ASSUME \A i \in 1..(2 * NT) : TLCSet(i, 0)

Ev == Traces[tid][l]
More == l <= Len(Traces[tid])

TInit == /\ tid \in 1..NT /\ l = 1 /\ fbs = <<>> /\ supp = {} /\ result = None

TAdd == /\ More /\ Ev.e = "add" /\ fbs' = Append(fbs, Ev.f) /\ UNCHANGED <<supp, result>>
TSupp == /\ More /\ Ev.e = "supp" /\ supp' = supp \cup {Ev.s} /\ UNCHANGED <<fbs, result>>
TClear == /\ More /\ Ev.e = "clear" /\ fbs' = <<>> /\ supp' = {} /\ result' = None
ResolveOk(obs) == /\ obs.shown >= 0 /\ ShownIsBestP(fbs, supp, obs) /\ DefaultIffNoneP(fbs, supp, obs)
                  /\ CorrectIffP(fbs, supp, obs) /\ ScoreIsP(fbs, supp, obs)
TResolve == /\ More /\ Ev.e = "resolve" /\ ResolveOk(Ev.obs) /\ result' = Ev.obs /\ UNCHANGED <<fbs, supp>>

TNext == (TAdd \/ TSupp \/ TClear \/ TResolve) /\ l' = l + 1 /\ UNCHANGED tid
TSpec == TInit /\ [][TNext]_tvars

\* bitmask of the contract clauses violated by the next event's observation (0 = none / not a resolve)
Clause == IF More /\ Ev.e = "resolve" THEN
             (IF Ev.obs.shown < 0 THEN 16 ELSE
                (IF ~ShownIsBestP(fbs, supp, Ev.obs) THEN 1 ELSE 0)
              + (IF ~DefaultIffNoneP(fbs, supp, Ev.obs) THEN 2 ELSE 0)
              + (IF ~CorrectIffP(fbs, supp, Ev.obs) THEN 4 ELSE 0)
              + (IF ~ScoreIsP(fbs, supp, Ev.obs) THEN 8 ELSE 0))
          ELSE 0
Progress == /\ (IF l > TLCGet(tid) THEN TLCSet(tid, l) /\ TLCSet(NT + tid, Clause) ELSE TRUE)
ClauseName(c) == ToString(c)
Post == LET rej == {i \in 1..NT : TLCGet(i) < Len(Traces[i]) + 1} IN
        /\ PrintT(<<"ACCEPTED", NT - Cardinality(rej)>>)
        /\ \A i \in rej : PrintT(<<"REJECTED", i, TLCGet(i), ClauseName(TLCGet(NT + i))>>)
=============================================================================
