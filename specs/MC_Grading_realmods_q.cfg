SPECIFICATION Spec
CONSTANTS
  Scripts = {"plain"}
  Subs = {"ok", "mathy", "realmut", "modsetT", "modget"}
  MaxLen = 2
  ClearResets <- CodeClearResets
  Writes <- W
  Reads <- R
  SubWrites <- SW
  SubReads <- SR
INVARIANT PristineAtStart
CONSTRAINT Export
CHECK_DEADLOCK FALSE
