SPECIFICATION Spec
CONSTANTS
  Cats = {"runtime", "instructor"}
  Prios = {"none"}
  Trigs = {FALSE, TRUE}
  Muteds = {FALSE, TRUE}
  Kinds = {"Mistake"}
  Elses = {FALSE}
  Labels = {"a"}
  Flds = {"f1"}
  Corrects = {"T", "F"}
  Valences = {"neg"}
  Scores = {"none"}
  Unscoreds = {FALSE}
  Msgs = {"text"}
  SuppU <- SuppScore
  MaxFb = 2
  MaxSupp = 1
  Variant = "correct_or"
INVARIANT ShownIsBest
INVARIANT DefaultIffNone
INVARIANT CorrectIff
INVARIANT ScoreIs
INVARIANT NoCorrectWithVisibleNegative
INVARIANT RankAgrees
CHECK_DEADLOCK FALSE
