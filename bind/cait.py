"""Binding of specs/CaitMatch.tla (C10, C11): flat tree encoding, witness extraction from real AstMaps,
pattern/program corpora, generalisation of programs into patterns."""
import ast
import copy
import re

CTX = (ast.Load, ast.Store, ast.Del)
WILD = "___"


def ph_class(name):
    if not isinstance(name, str):
        return "none"
    if name == WILD:
        return "wild"
    if re.match(r"^__.+__$", name):
        return "expr"
    if re.match(r"^_[^_].*_$", name) and not name.endswith("__"):
        return "var"
    return "none"


def node_text(node):
    if isinstance(node, ast.Name):
        return node.id
    if isinstance(node, ast.Constant):
        return "%s:%r" % (type(node.value).__name__, node.value)
    if isinstance(node, ast.Attribute):
        return node.attr
    if isinstance(node, (ast.FunctionDef, ast.ClassDef, ast.AsyncFunctionDef)):
        return node.name
    if isinstance(node, ast.arg):
        return node.arg
    if isinstance(node, ast.keyword):
        return node.arg or ""
    if isinstance(node, ast.alias):
        return node.name
    if isinstance(node, (ast.Global, ast.Nonlocal)):
        return ",".join(node.names)
    return ""


def encode(root, is_pattern):
    """-> (nodes list of dicts (1-based via position), {id(astnode): index})"""
    nodes = []
    index = {}

    def walk(node, parent, field, idx, hidden):
        nodes.append(None)
        me = len(nodes)
        index[id(node)] = me
        kind = type(node).__name__
        text = node_text(node)
        ph = "none"
        hide_children = hidden
        if isinstance(node, CTX):
            ph = "skip"
        elif hidden:
            ph = "skip"
        elif is_pattern:
            if isinstance(node, ast.Name):
                ph = ph_class(node.id)
                if ph != "none":
                    hide_children = True
            elif isinstance(node, ast.Pass):
                ph = "stmt"
            elif isinstance(node, ast.Expr) and isinstance(node.value, ast.Name) and ph_class(node.value.id) in ("wild", "expr"):
                ph = "stmt"
                text = node.value.id
                hide_children = True
            elif isinstance(node, ast.Expr):
                # an expression statement of the pattern is a transparent wrapper ("should match to anything",
                # shallow_match_Expr): `foo()` also matches the statement `x = foo()`; its content is its child
                ph = "stmt"
            elif text and ph_class(text) != "none":
                text = "*"       # a placeholder standing for a function / class / attribute / argument name
        nodes[me - 1] = {"kind": kind, "text": text, "parent": parent, "field": field, "idx": idx, "ph": ph}
        for f, value in ast.iter_fields(node):
            if value is None:
                continue
            vals = value if isinstance(value, list) else [value]
            k = 0
            for sub in vals:
                if isinstance(sub, ast.AST):
                    k += 1
                    walk(sub, me, f, k, hide_children)
    walk(root, 0, "", 1, False)
    return nodes, index


def root_of(cnode):
    while cnode.parent is not None:
        cnode = cnode.parent
    return cnode


def witness_of(m, own=None):
    """Witness record of one AstMap.  own: predicate selecting the pattern nodes that belong to the pattern being
    matched (sub-matches inherit the pairs of the enclosing match, which belong to another pattern tree)."""
    pairs = [(k, v) for k, v in m.mappings.items() if own is None or own(k)]
    if not pairs:
        return {"P": [], "S": [], "m": [], "sym": [], "exps": [], "note": "empty mapping"}
    proot = root_of(pairs[0][0]).astNode
    sroot = root_of(pairs[0][1]).astNode
    P, pidx = encode(proot, True)
    S, sidx = encode(sroot, False)
    # wrappers of the pattern root that CAIT trims are not part of the embedding
    # operator and context nodes are shared singleton objects in CPython's ast, so nodes are identified by
    # CAIT's own pre-order tree_id (the same numbering as encode()); kinds are cross-checked
    for k, v in pairs:
        if P[k.tree_id]["kind"] != type(k.astNode).__name__ or S[v.tree_id]["kind"] != type(v.astNode).__name__:
            raise RuntimeError("tree numbering of the encoder disagrees with CAIT's tree_id")
    mapped = {k.tree_id + 1 for k, _ in pairs}
    for i, n in enumerate(P, 1):
        if n["ph"] in ("none", "stmt") and n["kind"] in ("Module", "Expr") and i not in mapped and all(
                P[j - 1]["kind"] in ("Module", "Expr") for j in ancestors(P, i)):
            n["ph"] = "skip"
    mm = sorted([k.tree_id + 1, v.tree_id + 1] for k, v in pairs)
    sym = []
    for table in (m.symbol_table, m.func_table, m.class_table):     # _f_ in call position is bound in func_table
        for name, vals in table.items():
            sym.append({"v": name, "ids": [getattr(x, "id", None) or str(x) for x in vals]})
    exps = [{"e": name, "s": v.tree_id + 1} for name, v in m.exp_table.items()]
    return {"P": P, "S": S, "m": mm, "sym": sym, "exps": exps}


def witnesses(pattern, program):
    """Run real find_matches; -> (n_matches, [witness records]) ; raises on internal errors."""
    from pedal.core.commands import clear_report, contextualize_report
    from pedal.cait.cait_api import find_matches
    clear_report()
    contextualize_report(program)
    matches = find_matches(pattern)
    return len(matches), [witness_of(m) for m in matches]


# sub-patterns matched INSIDE a subtree bound by an enclosing match (CaitNode.find_matches, use_previous=True):
# they deliberately re-use the placeholder names of the enclosing patterns
SUBPATTERNS = ["_v2_[__e__]", "_g_(__e__)", "__a__ < __b__", "__e__ == ___", "__e__ + ___", "___ * __e__", "__e__.upper()",
               "_x_[__a__]", "-__e__", "[__e__, ___]", "_acc_ + __e__", "_x_ + __b__", "_x_", "_acc_", "_var_"]
OUTER_FOR_SUB = ["print(__e__)", "_x_ = __e__", "__a__ + __b__", "_acc_ = _acc_ + __e__", "if __e__:\n    pass",
                 "for ___ in __e__:\n    pass", "return __e__", "_x_ = __a__ + __b__",
                 "for _var_ in ___:\n    if __e__ == __str2__:\n        pass"]
SUB_PROGRAMS = [
    "for reports in weather_reports:\n    if report['Station']['City'] == 'Chicago':\n        trend.append(reports['Data'])\n",
    "total = data[key] + data[other]\nprint(items[0] * 2 + items[1])\n",
    "x = f(a + 1) < g(b)\nif rows[i] == names[j]:\n    pass\n",
    "def h(v):\n    return v[0] + v[1]\nfor c in text.upper():\n    pass\nacc = acc + -w\n",
    "y = [a, b]\nprint(s.upper())\nz = y[idx] + x\n",
]


def sub_witnesses(pattern, program):
    """For every match of `pattern`, match each SUBPATTERN inside every subtree bound to an __expr__ placeholder,
    inheriting the enclosing match.  -> list of witness records over the sub-pattern's own nodes (bindings include
    the inherited ones)."""
    from pedal.core.commands import clear_report, contextualize_report
    from pedal.cait.cait_api import find_matches
    clear_report()
    contextualize_report(program)
    out = []
    for outer in find_matches(pattern):
        outer_keys = set(id(k) for k in outer.mappings)
        for name in list(outer.exp_table):
            node = outer[name]            # the documented access path: it also attaches the enclosing match to the node
            for sp in SUBPATTERNS:
                try:
                    subs = node.find_matches(sp, use_previous=True)
                except Exception as e:
                    out.append({"error": "%s: %s" % (type(e).__name__, e), "sub": sp, "inside": name})
                    continue
                for sm in subs:
                    w = witness_of(sm, own=lambda k: id(k) not in outer_keys)
                    w["sub"] = sp
                    w["inside"] = name
                    out.append(w)
    return out


def ancestors(T, i):
    out = []
    while T[i - 1]["parent"]:
        i = T[i - 1]["parent"]
        out.append(i)
    return out


# ------------------------------------------------------------------ corpora
PROGRAMS = [
    "total = 0\nfor item in items:\n    total = total + item\nprint(total)\n",
    "x = 5\ny = x + 1\nprint(y)\n",
    "x = True\ny = 1\nz = 1.0\nw = None\nprint(x, y, z, w)\n",
    "def add(a, b):\n    return a + b\nprint(add(1, 2))\n",
    "count = 0\nwhile count < 10:\n    count += 1\n    print(count)\n",
    "if x > 0:\n    print('pos')\nelif x < 0:\n    print('neg')\nelse:\n    print('zero')\n",
    "values = [1, 2, 3]\nresult = []\nfor v in values:\n    if v % 2 == 0:\n        result.append(v)\nprint(result)\n",
    "a = b * c + d\ne = d + c * b\n",
    "import math\narea = math.pi * r ** 2\nprint(area)\n",
    "class Dog:\n    def __init__(self, name):\n        self.name = name\n    def bark(self):\n        print(self.name)\nd = Dog('rex')\nd.bark()\n",
    "total = 0\nprint(total)\ntotal = 0\n",
    "s = 'hello'\nt = s.upper()\nprint(t[0], s[1:3])\n",
    "data = {'a': 1, 'b': 2}\nfor k in data:\n    print(k, data[k])\n",
    "def f(n):\n    if n <= 1:\n        return 1\n    return n * f(n - 1)\n",
    "xs = [i * 2 for i in range(5) if i > 1]\nprint(sum(xs))\n",
    "try:\n    value = int(input())\nexcept ValueError:\n    value = 0\nprint(value)\n",
    "count = 0\ncount = 5\ncount = ''\ncount = False\n",
    "print(1 + 2)\nprint(2 + 1)\nprint(1 * 2 * 3)\n",
    "a = 1\nb()\n",
    "def f():\n    global a\n    a = 1\n",
    "x = 5\ny = b'a'\nz = ...\n",
    "y = 1\nx = foo()\n",
]
# only for the C10 pattern x program grid: identifiers made of / framed by underscores (as a C11 BASE it would be
# generalised into `___` and `__total_`, which are no placeholders of the identifiers they stand for)
UNDERSCORE_PROGRAMS = ["for _ in range(3):\n    pass\n_ = 0\n_total = 0\nprint(_)\n"]
PATTERNS = [
    "_acc_ = 0\nfor ___ in ___:\n    _acc_ = _acc_ + __e__",
    "_x_ = 0", "_x_ = 1", "_x_ = None", "_x_ = True", "_x_ = ''", "_x_ = 5", "_x_ = 1.0", "_x_ = False",
    "print(___)", "print(__e__)", "print(_v_)", "___ + ___", "_a_ + _b_", "_a_ * _b_ + _c_", "1 + 2", "__a__ + __b__",
    "for _i_ in ___:\n    pass", "for _i_ in ___:\n    ___", "while ___:\n    pass", "if ___:\n    pass",
    "def _f_(_a_, _b_):\n    return _a_ + _b_", "def _f_(___):\n    pass", "return ___", "_x_.append(___)",
    "_t_ = 0\nprint(_t_)", "_t_ = 0\n_t_ = 0", "_x_ = ___\n_y_ = _x_ + 1", "___ = ___", "___ < ___", "_x_ < 10",
    "_x_ += 1", "import math", "math.pi", "___.pi * ___", "self.name = name", "_d_[_k_]", "[___ for ___ in ___]",
    "try:\n    pass\nexcept ValueError:\n    pass", "count = 0", "total = 0\nprint(total)", "x = 5\ny = x + 1",
    "nonexistent_name = 0", "print('absent text')", "_x_ = 12345", "zzz(___)",
    # identifiers made of or framed by underscores that are NOT placeholders
    "for _ in ___:\n    pass", "_ = 0", "__ = 0", "_total = 0", "total_ = 0", "print(_)",
    "_x_ = 1\n_x_()", "global a, b", "global a", "x = b'a'", "x = ...", "_v_ = b'zz'", "y = 1\nfoo()",
]


def record_chunk(pairs, extra):
    from engine.core import setup_repo_path
    setup_repo_path()
    out = []
    for pattern, program in pairs:
        rec = {"pattern": pattern, "program": program}
        try:
            n, ws = witnesses(pattern, program)
            rec["n"] = n
            rec["witnesses"] = ws
            rec["sub"] = sub_witnesses(pattern, program) if (n > 0 and extra == "sub" and "__" in pattern) else []
        except Exception as e:
            rec["n"] = -1
            rec["witnesses"] = []
            rec["error"] = "%s: %s" % (type(e).__name__, e)
        out.append(rec)
    return out


def absent_content(pattern, program):
    """Does the pattern contain an identifier or literal that occurs nowhere in the program?"""
    try:
        ptree, stree = ast.parse(pattern), ast.parse(program)
    except SyntaxError:
        return False
    have = set()
    for n in ast.walk(stree):
        t = node_text(n)
        if t:
            have.add((type(n).__name__ if isinstance(n, ast.Constant) else "id", t))
    for n in ast.walk(ptree):
        t = node_text(n)
        if not t or isinstance(n, ast.Pass):
            continue
        if isinstance(n, ast.Constant):
            if ("Constant", t) not in have:
                return True
        elif ph_class(t) == "none" and ("id", t) not in have:
            return True
    return False


# ------------------------------------------------------------------ C11: generalisation of programs into patterns
BASE_PROGRAMS = PROGRAMS + [
    "name = input('n')\nprint('hi ' + name)\n",
    "for i in range(3):\n    for j in range(2):\n        print(i * j)\n",
    "nums = [3, 1, 2]\nnums.sort()\nbest = nums[0]\nprint(best)\n",
    "def area(w, h):\n    size = w * h\n    return size\nresult = area(2, 3)\nprint(result)\n",
    "x = 1\nif x == 1:\n    y = 2\nelse:\n    y = 3\nprint(x + y)\n",
    "obj = object()\nkind = obj.__class__\nprint(kind.__name__)\n",
    "with open('f.txt') as handle:\n    text = handle.read()\nprint(len(text))\n",
    "pairs = [(1, 'a'), (2, 'b')]\nfor num, letter in pairs:\n    print(num, letter)\n",
    "flag = not done and (count > 3 or name == 'x')\nprint(flag)\n",
    "def greet(name='you', *rest, **extra):\n    return 'hi ' + name\n",
    "a = 1\nb = 2\nprint(b)\ndone()\nprint(a)\n",
    "try:\n    n = int(text)\nexcept ValueError:\n    n = 0\n    fixed = n + 1\nfinally:\n    shown = n\n",
    # compact layouts: one-line suites and ;-joined statements (the tree is the same as with one statement per line)
    "total = 0\nfor v in vals:\n    if v < 0: continue\n    total += v\nprint(total); print(vals)\n",
    "x = 1; y = 2\nif x: y = 3\nelse: y = 4\ndef f(): return y\nprint(f())\n",
]


# base programs the quick tier always uses (each was added for one mechanism: nested loops, conflicting sibling
# candidates, handlers with several statements, compact layouts)
QUICK_MUST_HAVE = [p for p in BASE_PROGRAMS if p.startswith(("for i in range(3):\n    for j", "a = 1\nb = 2\nprint(b)\ndone()", "try:\n    n = int(text)",
                                                            "total = 0\nfor v in vals:", "x = 1; y = 2"))]
assert len(QUICK_MUST_HAVE) == 5, QUICK_MUST_HAVE


def statement_bases(program):
    """The whole program and each of its statements (at any nesting depth) as fragments of the program.
    -> list of (fragment source, offset) where offset maps fragment node numbers to whole-program numbers."""
    tree = ast.parse(program)
    nodes = preorder(tree)
    outs = [(program, 0)]
    for k, st in enumerate(nodes, 1):
        if isinstance(st, ast.stmt) and not (len(tree.body) == 1 and st is tree.body[0]):
            frag = ast.unparse(st) + "\n"
            # the fragment must re-parse to the same subtree shape (unparse normalises formatting only)
            outs.append((frag, k - 2))
    return outs


def preorder(root):
    out = []

    def walk(node):
        out.append(node)
        for f, value in ast.iter_fields(node):
            if value is None:
                continue
            for sub in (value if isinstance(value, list) else [value]):
                if isinstance(sub, ast.AST):
                    walk(sub)
    walk(root)
    return out


def subtree_indices(nodes_list, idx_of, node):
    return [idx_of[id(n)] for n in preorder(node)]


def make_base(program, max_expr=4, max_var=3, max_drop=3, subject=None, offset=0):
    """-> base record for specs/CaitGen.tla.  The fragment is its own subject (pattern derived from the program)."""
    tree = ast.parse(program)
    S, _ = encode(tree, False)
    S[0]["ph"] = "skip"                      # the Module wrapper is not part of the by-construction witness
    nodes = preorder(tree)
    # operator/context singletons: index by position, not by id
    pos = {}
    for i, n in enumerate(nodes, 1):
        pos.setdefault(id(n), []).append(i)
    steps = []
    # expression positions: values in Load context that are not call targets / attribute bases being called
    exprs = []
    for i, n in enumerate(nodes, 1):
        if isinstance(n, ast.expr) and not isinstance(getattr(n, "ctx", None), (ast.Store, ast.Del)):
            par = nodes[S[i - 1]["parent"] - 1] if S[i - 1]["parent"] else None
            if isinstance(par, ast.Call) and S[i - 1]["field"] == "func":
                continue
            if isinstance(par, (ast.Attribute,)) and S[i - 1]["field"] == "value" and False:
                continue
            if isinstance(par, (ast.FormattedValue, ast.JoinedStr, ast.keyword, ast.Starred)):
                continue
            if isinstance(n, (ast.Starred,)):
                continue
            if isinstance(par, ast.Expr):
                continue            # replacing a whole expression statement is the statement wildcard, not a sub-expression
            exprs.append(i)
    # spread the chosen positions over the program
    if len(exprs) > max_expr:
        stride = len(exprs) / float(max_expr)
        exprs = [exprs[int(k * stride)] for k in range(max_expr)]
    for k, i in enumerate(exprs):
        below = [j for j in range(i + 1, len(nodes) + 1) if i in ancestors(S, j)]
        steps.append({"k": "wild", "name": "___", "orig": "", "prim": [i], "hide": below, "body": 0})
        steps.append({"k": "expr", "name": "__e%d__" % k, "orig": "", "prim": [i], "hide": below, "body": 0})
    # identifiers
    names = []
    for n in nodes:
        if isinstance(n, ast.Name) and n.id not in names and ph_class(n.id) == "none":
            names.append(n.id)
    builtin_like = {"print", "range", "len", "input", "int", "open", "sum", "object", "ValueError"}
    names = [x for x in names if x not in builtin_like][:max_var]
    for x in names:
        prim = [i for i, n in enumerate(nodes, 1) if isinstance(n, ast.Name) and n.id == x]
        steps.append({"k": "var", "name": "_%s_" % x, "orig": x, "prim": prim, "hide": [], "body": 0})
    # droppable sibling statements
    bodies = []
    drops = 0
    for i, n in enumerate(nodes, 1):
        for f in ("body", "orelse", "finalbody"):
            lst = getattr(n, f, None)
            if isinstance(lst, list) and len(lst) >= 2 and all(isinstance(s, ast.stmt) for s in lst):
                bodies.append(len(lst))
                b = len(bodies)
                for st in lst:
                    if drops >= max_drop:
                        break
                    si = [j for j, m in enumerate(nodes, 1) if m is st][0]
                    below = [j for j in range(si + 1, len(nodes) + 1) if si in ancestors(S, j)]
                    steps.append({"k": "drop", "name": "", "orig": "", "prim": [], "hide": [si] + below, "body": b})
                    drops += 1
    return {"program": program, "S": S, "steps": steps, "bodies": bodies, "subject": subject or program, "offset": offset}


def apply_steps(program, base, gen):
    """Apply the chosen steps to the program's AST -> pattern source."""
    tree = ast.parse(program)
    nodes = preorder(tree)
    S = base["S"]
    chosen = [base["steps"][i - 1] for i in sorted(gen)]
    replace = {}
    drop = set()
    rename = {}
    for st in chosen:
        if st["k"] in ("wild", "expr"):
            replace[st["prim"][0]] = st["name"]
        elif st["k"] == "var":
            rename[st["orig"]] = st["name"]
        elif st["k"] == "drop":
            drop.add(st["hide"][0])

    class T(ast.NodeTransformer):
        def __init__(self):
            self.counter = 0

        def generic_visit(self, node):
            return super().generic_visit(node)

    # work on indices: rebuild by walking with the same numbering
    counter = [0]

    def rebuild(node):
        counter[0] += 1
        me = counter[0]
        if me in replace:
            # skip numbering of the hidden subtree
            counter[0] += len(preorder(node)) - 1
            return ast.copy_location(ast.Name(id=replace[me], ctx=ast.Load()), node)
        if isinstance(node, ast.Name) and node.id in rename:
            new = ast.Name(id=rename[node.id], ctx=node.ctx)
            counter[0] += len(preorder(node)) - 1
            return ast.copy_location(new, node)
        for f, value in list(ast.iter_fields(node)):
            if value is None:
                continue
            if isinstance(value, list):
                newlist = []
                for sub in value:
                    if isinstance(sub, ast.AST):
                        idx_here = counter[0] + 1
                        if idx_here in drop:
                            counter[0] += len(preorder(sub))
                            continue
                        newlist.append(rebuild(sub))
                    else:
                        newlist.append(sub)
                setattr(node, f, newlist)
            elif isinstance(value, ast.AST):
                setattr(node, f, rebuild(value))
        return node
    new_tree = rebuild(tree)
    ast.fix_missing_locations(new_tree)
    return ast.unparse(new_tree) + "\n"


def gen_chunk(cases, extra):
    """cases: (base index, gen list); replays each derived pattern on real find_matches."""
    from engine.core import setup_repo_path
    setup_repo_path()
    bases = extra["bases"]
    out = []
    for bi, gen in cases:
        base = bases[bi - 1]
        program = base["program"]
        subject = base["subject"]
        rec = {"base": bi, "gen": gen, "program": subject, "fragment": program}
        try:
            pattern = apply_steps(program, base, gen)
        except Exception as e:
            rec["harness_error"] = "%s: %s" % (type(e).__name__, e)
            out.append(rec)
            continue
        rec["pattern"] = pattern
        try:
            from pedal.core.commands import clear_report, contextualize_report
            from pedal.cait.cait_api import find_matches
            n, ws = witnesses(pattern, subject)
            rec["n"] = n
            rec["witnesses"] = ws
            # does one match bind every placeholder to what it replaced?
            chosen = [base["steps"][i - 1] for i in sorted(gen)]
            ok_any = False
            for w in ws:
                ok = True
                sym = {x["v"]: x["ids"] for x in w["sym"]}
                exps = {x["e"]: x["s"] for x in w["exps"]}
                for st in chosen:
                    if st["k"] == "var":
                        ids = sym.get(st["name"])
                        if not ids or any(i != st["orig"] for i in ids):
                            ok = False
                    elif st["k"] == "expr":
                        if exps.get(st["name"]) != st["prim"][0] + base["offset"]:
                            ok = False
                ok_any = ok_any or ok
            rec["bound_to_original"] = ok_any if ws else False
        except Exception as e:
            rec["n"] = -1
            rec["witnesses"] = []
            rec["error"] = "%s: %s" % (type(e).__name__, e)
        out.append(rec)
    return out
