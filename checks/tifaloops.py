"""Loops/calls part of C09 (soundness: no missed uninitialised read) against specs/TifaLoops.tla."""
import json

from engine import tlc
from engine.core import shard_map


def run_part(cfgs, ctx):
    for cfg in cfgs:
        res = tlc.run("TifaLoops", cfg, workers=8, timeout=1800)
        tlc.require_ok(res, cfg)
        ctx.add_tlc(res, "ground truth for loops/calls " + cfg)
        cases = list(enumerate(res.records))
        mism = shard_map("bind.tifaflow", "loops_chunk", cases)
        ctx.cov["replayed_cases"] += len(cases)
        ctx.cov["traces_validated_against_impl"] += len(cases)
        ctx.count(len(cases), (json.dumps(r["prog"]) for _, r in cases if any(x["must"] for x in r["reads"])))
        ctx.sample({"kind": "loop/call program", "cfg": cfg, "tokens": res.records[len(res.records) // 2]["prog"]})
        for m in mism:
            if m["kind"] == "missed":
                ctx.violation("C09|missed|%s" % m["shape"],
                              "read of %s at line %d is unassigned on a real execution but TIFA reports nothing there  ::  %s" % (
                                  m["name"], m["line"], m["source"].strip().replace("\n", " / ")), m)
            else:
                ctx.violation("C09|%s" % m["kind"], "%s: %s  ::  %s" % (m["kind"], m["detail"], m["source"].strip().replace("\n", " / ")), m)
