"""C12: verify() against CPython's parser (specs/SourceVerify.tla)."""
import json

from engine import tlc
from engine.core import shard_map
from engine.tlc import MachineryError

BITS = {1: "Total", 2: "SyntaxFbIff", 4: "LineIs", 8: "BlankReported", 16: "TreeStored", 32: "TracebackLineIs", 64: "QuotedLineIs"}


def run(prop, tier, seed, ctx):
    ctx.assumptions += ["CPython's own parser (ast.parse) is the oracle; its verdict and line are logged next to verify()'s",
                        "texts: templates per outcome class in histories of two verify calls, and corpus files with 0-3 random "
                        "character insertions / deletions / newline conversions (tabs, form feed, NUL, CR, BOM, non-ASCII)",
                        "texts the parser cannot even take (lone surrogates) or gives up on (nesting too deep) count as rejected without a line"]
    ctx.cov["rule"] = ("case = one history of verify calls (outcome classes enumerated by TLC) or one mutated text; every call is "
                       "logged as an event and validated by TLC against CallOk; non-trivial = the parser rejects the text or "
                       "the text is blank; distinct = distinct text")
    res = tlc.run("SourceVerify", "MC_SourceVerify.cfg", workers=4, timeout=300)
    tlc.require_ok(res, "SourceVerify")
    ctx.add_tlc(res, "histories of outcome classes x offsets")
    hists = shard_map("bind.verify", "hist_chunk", list(enumerate(res.records)))
    for h in hists:
        for ev in h["events"]:
            if "environment_mismatch" in ev:
                raise MachineryError(ev["environment_mismatch"])
    from bind.verify import corpus_texts
    n = 1500 if tier == "quick" else 30000
    texts = corpus_texts(seed, n)
    singles = shard_map("bind.verify", "text_chunk", [(t, (i % 3) * 4) for i, t in enumerate(texts)] +
                        # every fifth text once more, as another file of a multi-file submission
                        [(t, (i % 3) * 4, "other") for i, t in enumerate(texts) if i % 5 == 0] +
                        # ... and every fourth with the documented option enhance=False
                        [(t, (i % 3) * 4, "native") for i, t in enumerate(texts) if i % 4 == 1])
    from bind.verify import PROLOGUES, SECTION_BODIES
    sect = shard_map("bind.verify", "section_chunk", [(p, b, k) for p in range(len(PROLOGUES)) for b in range(len(SECTION_BODIES)) for k in (1, 2)] +
                     [(p, b, k, "stop") for p in range(len(PROLOGUES)) for b in range(len(SECTION_BODIES)) for k in (1, 2)] +
                     [(p, b, k, "set") for p in range(len(PROLOGUES)) for b in range(len(SECTION_BODIES)) for k in (1, 2)], chunk=10)
    for t in sect:
        if "environment_mismatch" in t["events"][0]:
            raise MachineryError("sectioned offer: " + t["events"][0]["environment_mismatch"] + " for %r" % t["texts"][0])
    if len(sect) < 40:
        raise MachineryError("only %d sectioned offers were produced" % len(sect))
    allt = hists + singles + sect
    ctx.cov["replayed_cases"] += len(allt)
    acc, rej, tres = tlc.validate_traces("TraceVerify", "TraceVerify.cfg", [[{k: v for k, v in e.items() if k not in ("error", "environment_mismatch", "sectioned")} for e in t["events"]] for t in allt], timeout=1200)
    ctx.add_tlc(tres, "CallOk evaluated on %d recorded verify histories" % len(allt))
    ctx.cov["traces_validated_against_impl"] += len(allt)
    ctx.count(len(allt), ("text:" + t["texts"][-1] for t in allt if t["events"][-1]["cls"] != "ok"))
    ctx.sample({"kind": "event", "text": singles[0]["texts"][0][:80], "event": singles[0]["events"][0]})
    for tid, pos, mask in rej:
        t = allt[tid - 1]
        ev = t["events"][pos - 1]
        for b, name in BITS.items():
            if int(mask) & b:
                ctx.violation("C12|%s|%s" % (name, ev["cls"]),
                              "verify() on %r (parser says %s at line %s, offset %d): clause %s fails: raised=%s %s syntax feedbacks=%d line=%s blank=%s tree_ok=%s" % (
                                  t["texts"][pos - 1][:70], ev["cls"], ev["line"], ev["offset"], name, ev["raised"], ev.get("error", ""),
                                  ev["nsyntax"], ev["fbline"], ev["blankfb"], ev["tree_ok"]), {"texts": t["texts"], "events": t["events"]})
    bad = [[dict(t["events"][0], nsyntax=1 - min(1, t["events"][0]["nsyntax"]))] for t in singles[:40]]
    a2, r2, _ = tlc.validate_traces("TraceVerify", "TraceVerify.cfg", [[{k: v for k, v in e.items() if k != "error"} for e in t] for t in bad], timeout=300)
    if a2:
        raise MachineryError("binding self-test: %d corrupted events accepted" % a2)
    ctx.notes.append("self-test: %d corrupted events rejected" % len(bad))


def replay(prop, rep):
    from bind import verify as B
    from engine.core import setup_repo_path
    setup_repo_path()
    r = rep["replay"]
    if r["events"][-1].get("sectioned"):
        whole = r["texts"][-1]
        out = [t for t in B.section_chunk([(p, b, k) for p in range(len(B.PROLOGUES)) for b in range(len(B.SECTION_BODIES)) for k in (1, 2)], None) if t["texts"][0] == whole]
        print(json.dumps(out, indent=1)[:1500])
        e = out[0]["events"][0] if out else {}
        return 1 if out and (e["raised"] or (e["cls"] not in ("ok", "blank") and e["fbline"] != e["line"] + e["offset"])) else 0
    out = B.text_chunk([(r["texts"][-1], r["events"][-1]["offset"])], None)
    print(json.dumps(out, indent=1)[:1500])
    return 1
