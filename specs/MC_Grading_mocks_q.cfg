SPECIFICATION Spec
CONSTANTS
  Scripts = {"plain"}
  Subs = {"ok", "turtleclear", "turtlestar"}
  MaxLen = 3
  ClearResets <- CodeClearResets
  Writes <- W
  Reads <- R
  SubWrites <- SW
  SubReads <- SR
INVARIANT PristineAtStart
CONSTRAINT Export
CHECK_DEADLOCK FALSE
