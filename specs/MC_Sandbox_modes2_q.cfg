SPECIFICATION Spec
CONSTANTS
  EffTokens = {"pa"}
  MaxEff = 1
  Modes = {"normal", "closeOut", "x:syntaxOther", "x:syntaxSelf", "x:syntaxBare", "x:indent", "x:noname", "x:lowername", "x:group", "x:unicode", "x:memory", "x:notimpl", "x:warn", "x:stopasync", "x:argsnonstr", "x:tuplekey", "x:syntaxStrLine", "x:strExits", "x:noSetattr", "x:noGetattr", "x:slots", "x:argsProp", "x:keySub", "x:chained", "x:ctxchained", "x:importRaises", "x:importExit", "x:importFnRaises", "x:fromImport", "baseImport", "x:importCustomInit"}
  FnModes = {"normal", "x:noSetattr", "x:noGetattr", "closeOut", "x:syntaxOther", "x:noname", "x:chained", "x:group", "x:importRaises", "x:fromImport", "baseImport"}
  MaxFns = 1
  Depth = 2
  InputOps = {}
  Entries = {"run", "call", "evaluate"}
  TracerStyles = {"none"}
  Threadeds = {FALSE, TRUE}
  Givens = {}
  Blockeds = {"none"}
  Flags = {}
INVARIANT Restored
INVARIANT Contained
INVARIANT NoSpuriousFb
INVARIANT OutputLedger
INVARIANT InputFifo
CONSTRAINT Export
CHECK_DEADLOCK FALSE
