"""C06: sandbox vs plain CPython (specs/Equiv.tla)."""
import json

from engine import tlc
from engine.core import shard_map
from engine.tlc import MachineryError


def run(prop, tier, seed, ctx):
    ctx.assumptions += ["plain side = the same source exec'd as __main__ (fresh namespace, stdin fed from the input queue) in an "
                        "interpreter process that never imports pedal's hooks; comparison modulo prompt echo; globals compared "
                        "after JSON projection (nan equals nan; functions, classes, modules by kind)",
                        "programs never read more input than is queued (EOFError in plain CPython has no sandbox counterpart)",
                        "program space: all abstract effect programs up to the length bound, generated CS1 programs, and the "
                        "call() marshalling cells (function x argument class x positional/keyword)"]
    ctx.cov["rule"] = ("case = one program (abstract, from TLC, or generated) executed in both machines, or one call() cell; "
                       "non-trivial = prints, reads input or raises; distinct = distinct source / cell")
    cfg = "MC_Equiv_q.cfg" if tier == "quick" else "MC_Equiv_t.cfg"
    res = tlc.run("Equiv", cfg, workers=8, timeout=900)
    tlc.require_ok(res, cfg)
    ctx.add_tlc(res, "EquivPlain on the two abstract machines for every program " + cfg)
    progs = [r for r in res.records if "prog" in r]
    cells = [r["cell"] for r in res.records if "cell" in r]
    cases = list(enumerate(progs))
    mism = shard_map("bind.equiv", "spec_chunk", cases, chunk=150)
    ctx.cov["replayed_cases"] += len(cases)
    ctx.count(len(cases), (json.dumps(r["prog"]) + json.dumps(r["queue"]) for r in progs if r["prog"]["stmts"]))
    ctx.sample({"kind": "abstract program", "prog": progs[len(progs) // 2]["prog"], "queue": progs[len(progs) // 2]["queue"]})
    ctx.cov["exhaustive"] = True
    for m in mism:
        if m["fields"] == ["environment"]:
            raise MachineryError("environment model wrong: %s\n%s" % (m["detail"], m["source"]))
        ctx.violation("C06|spec|%s|%s" % ("+".join(m["fields"]), m["prog"]["mode"]),
                      "program %s with inputs %s differs in %s: sandbox %s plain %s globals %s" % (
                          m["prog"], m["queue"], m["fields"], m.get("sandbox", m.get("detail")), m.get("plain"), m.get("globals_diff")), m)
    # ---- generated CS1 programs
    n = 600 if tier == "quick" else 12000
    gen = shard_map("bind.equiv", "gen_chunk", [seed * 104729 + i for i in range(n)], chunk=100)
    ran = [g for g in gen if "skipped" not in g]
    ctx.cov["replayed_cases"] += len(ran)
    ctx.cov["traces_validated_against_impl"] += len(ran)
    ctx.count(len(ran), (g["source"] for g in ran))
    ctx.sample({"kind": "generated program", "source": ran[0]["source"], "inputs": ran[0]["inputs"]})
    if len(ran) < n // 2:
        raise MachineryError("too many generated programs skipped (%d of %d)" % (n - len(ran), n))
    for g in ran:
        if "fields" in g:
            ctx.violation("C06|generated|%s|%s" % ("+".join(g["fields"]), g["plain_outcome"]),
                          "generated program (seed %d) differs in %s: sandbox %s plain %s globals %s  ::  %s" % (
                              g["seed"], g["fields"], g.get("sandbox", g.get("detail")), g.get("plain"), g.get("globals_diff"),
                              g["source"].strip().replace("\n", " / ")[:300]), g)
    # ---- call() marshalling cells
    ccases = [(c["fn"], c["arg"], c["style"]) for c in cells if not (c["style"] == "kwarg" and c["fn"] in ("two", "alias_mutate"))]
    cm = shard_map("bind.equiv", "call_chunk", ccases, chunk=40)
    ctx.cov["replayed_cases"] += len(ccases)
    ctx.count(len(ccases), ("call:%s:%s:%s" % c for c in ccases))
    for m in cm:
        ctx.violation("C06|call|%s|%s%s" % (m["arg"], m["sandbox"][0] if m["sandbox"][0] != "ok" else "different-result",
                                            "|aliased-arguments" if m["fn"] == "alias_mutate" else ""),
                      "call(%r, <%s>, %s): direct call gives %s, sandbox gives %s" % (m["fn"], m["arg"], m["style"], m["direct"], m["sandbox"]), m)
    # ---- sessions: run once, then calls that rebind / mutate / delete / create globals (specs/EquivSession.tla)
    scfg = "MC_EquivSession_q.cfg" if tier == "quick" else "MC_EquivSession_t.cfg"
    sres = tlc.run("EquivSession", scfg, workers=4, timeout=300)
    tlc.require_ok(sres, scfg)
    ctx.add_tlc(sres, "sessions of stateful calls, threaded and not: SameReturn, SameGlobals " + scfg)
    scases = list(enumerate(sres.records))
    # ... plus deep random sessions (tlc -simulate): ten stateful calls after the run
    num = 100 if tier == "quick" else 3000
    simres = tlc.run("EquivSession", "SIM_EquivSession_deep.cfg", workers=4, timeout=600, simulate="num=%d" % num, extra=["-depth", "14", "-seed", str(1000 + seed)])
    tlc.require_ok(simres, "simulation SIM_EquivSession_deep.cfg")
    ctx.add_tlc(simres, "simulation (%d sessions of 10 calls) SIM_EquivSession_deep.cfg" % (4 * num))
    simrecs = list({json.dumps(r, sort_keys=True): r for r in simres.records}.values())
    if len(simrecs) < num:
        raise MachineryError("simulation exported only %d sessions" % len(simrecs))
    scases += list(enumerate(simrecs))
    sm = shard_map("bind.equiv", "session_chunk", scases, chunk=16)
    ctx.cov["replayed_cases"] += len(scases)
    ctx.count(len(scases), ("session:" + json.dumps([r["threaded"], [h["op"] for h in r["hist"]]]) for _, r in scases))
    for m in sm:
        if m["kind"] == "environment":
            raise MachineryError("session environment model wrong: %s" % m["detail"])
        ctx.violation("C06|session|%s|%s|%s" % ("threaded" if m["threaded"] else "plainrun", m["op"], "+".join(m["fields"])),
                      "session %s (threaded=%s): after step %d (%s) the sandbox differs from direct calls in %s: plain %s sandbox %s" % (
                          [h["op"] for h in m["case"]["hist"]], m["threaded"], m["step"], m["op"], m["fields"], m["plain"], m["sandbox"]), m)
    mres = tlc.run("EquivSession", "MUT_EquivSession_snapshot.cfg", workers=2, timeout=300)
    if "SameGlobals" not in mres.violated:
        raise MachineryError("mutant snapshot_namespace did not violate SameGlobals")
    ctx.notes.append("self-test: executions run in a merged-back copy of the namespace violate SameGlobals")


def replay(prop, rep):
    from bind import equiv as B
    from engine.core import setup_repo_path
    setup_repo_path()
    r = rep["replay"]
    if r.get("kind") == "session":
        out = B.session_chunk([(0, r["case"])], None)
        print(json.dumps(out, indent=1, default=repr)[:2500])
        return 1 if out else 0
    print(json.dumps(r, indent=1, default=repr)[:2500])
    return 1
