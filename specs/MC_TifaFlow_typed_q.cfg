SPECIFICATION Spec
CONSTANTS
  Vars = {"x"}
  MaxTok = 7
  MaxDepth = 2
  Types = {"i", "s"}
  CondVars = {}
  Copies = FALSE
  Flags = {}
INVARIANT ReadsExact
INVARIANT UnusedExact
CONSTRAINT Export
CHECK_DEADLOCK FALSE
