SPECIFICATION Spec
CONSTANTS
  EffTokens = {"pa", "pae", "sp", "in", "pn", "pcr"}
  MaxEff = 1
  Modes = {"normal", "closeOut"}
  FnModes = {"normal"}
  MaxFns = 1
  Depth = 3
  InputOps = {"clear_output", "set_input"}
  Entries = {"run", "call"}
  TracerStyles = {"none"}
  Threadeds = {FALSE}
  Givens = {}
  Blockeds = {"none"}
  Flags = {"closed_stream_loses_output"}
INVARIANT OutputLedger
CONSTRAINT Export
CHECK_DEADLOCK FALSE
