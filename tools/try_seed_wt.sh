#!/bin/bash
# Run one property's check against a scratch worktree of /repo with a seeded patch applied (does not touch /repo).
# usage: tools/try_seed_wt.sh <seed> [tier] ; evidence/<id>.json is overwritten, re-run the check on /repo afterwards.
s=$1; tier=${2:-quick}; prop=${s%%-*}; wt=/tmp/swt_$s
git -C /repo worktree remove --force $wt >/dev/null 2>&1; rm -rf $wt
git -C /repo worktree add --detach $wt HEAD >/dev/null 2>&1 || { echo "worktree failed"; exit 2; }
git -C $wt apply /verif/seeded/$s/patch.diff || { echo "apply failed"; git -C /repo worktree remove --force $wt; exit 2; }
VERIF_REPO=$wt /verif/check $prop --tier $tier > /verif/build/seedwt_$s.log 2>&1; rc=$?
git -C /repo worktree remove --force $wt >/dev/null 2>&1; rm -rf $wt
echo "$s [$prop $tier] exit=$rc $(grep -c '^VIOLATION' /verif/build/seedwt_$s.log) violation lines; $(grep -m1 '^VIOLATION' /verif/build/seedwt_$s.log | cut -c1-200)"
