"""Binding of specs/TifaRobust.tla (C18): concretise matrix cells into programs, replay analyze/clear histories."""
import ast
import json

PRELUDE = "import math\nn = 3\ns = 'ab'\nxs = [1, 2]\nd = {'a': 1}\n"
EXPR = {"int": "7", "float": "2.5", "str": "'hi'", "bool": "True", "none": "None", "list": "[1, n]", "dict": "{'k': n}",
        "tuple": "(1, n)", "set": "{1, n}", "binop": "n + 2", "compare": "n < 5", "boolop": "n > 1 and n < 9", "unary": "-n",
        "call": "len(xs)", "method": "s.upper()", "subscript": "xs[0]", "slice": "xs[1:]", "attribute": "math.pi",
        "listcomp": "[i * 2 for i in xs]", "dictcomp": "{i: i for i in xs}", "ifexp": "n if n > 1 else 0",
        "fstring": "f'{n} items'", "lambda": "(lambda z: z + 1)(n)", "name": "n",
        # the placeholder students leave in unfinished code, and the other literal kinds Python has
        "ellipsis": "...", "bytes": "b'ab'", "complex": "2j",
        # repetition by literal counts, small and absurdly large (nothing is executed: the analysis must not try to)
        "lambdaarity": "(lambda z: z)(n, 2)",          # an anonymous function called with one argument too many
        "tuplerep": "(1, n) * 3", "hugerep": "(1, 'a') * 99999999999999999999", "strrep": "'ab' * 1000000000000",
        # subscripts by signed and out-of-range literals (the program would fail at run time: the analysis must not)
        "tupleneg": "(1, n)[-3]", "tuplelast": "(1, n)[-1]", "tuplefar": "(1, n)[7]", "emptyneg": "()[-1]",
        "dictneg": "{-1: n}[-1]", "strneg": "s[-9]",
        # things that are called although they are no functions (or have no name): TIFA reports, it does not fail
        "litmethod": "'a'.foo()", "lambdacall0": "(lambda: 1)()", "elemcall": "xs[0]()", "numcall": "n()", "callcall": "len(xs)()",
        # operands the operator table does not know; unpacking inside a display
        "startuple": "(*xs, 3)", "starsum": "(*xs, 3) + (5,)", "deepnest": "((((((((((n,),),),),),),),),),)",
        "slicestep": "xs[::2]", "sliceof": "(1, 'a', 2.5)[1:]", "condslice": "(xs if n else s)[0:1]"}
STMT = {"assign": "v = {E}\nprint(v)", "augassign": "acc = {E}\nacc += {E}\nprint(acc)", "exprstmt": "print({E})",
        "if": "if {E}:\n    print(1)\nelse:\n    print(2)", "while": "k = 0\nwhile k < 2:\n    v = {E}\n    k += 1\n    print(v)",
        "for": "for i in xs:\n    v = {E}\n    print(v, i)", "defcall": "def f(a):\n    return {E}\nprint(f(1))",
        "return": "def g():\n    v = {E}\n    return v\nprint(g())", "print": "print({E}, {E})",
        "multiassign": "v = w = {E}\nprint(v, w)", "with": "with open('f.txt') as fh:\n    v = {E}\n    print(v, fh.read())",
        "try": "try:\n    v = {E}\nexcept ValueError:\n    v = None\nprint(v)"}
FUNC_ARGS = {"abs": ("-3", "n"), "all": ("[True, False]", "xs"), "any": ("[True]", "xs"), "bool": ("0", "n"), "chr": ("65", "n"),
             "dict": ("a=1", "d"), "enumerate": ("[1, 2]", "xs"), "float": ("'2.5'", "n"), "input": ("'p'", "s"),
             "int": ("'3'", "s"), "isinstance": ("3, int", "n, int"), "len": ("[1, 2]", "xs"), "list": ("'ab'", "s"),
             "map": ("str, [1, 2]", "str, xs"), "max": ("[1, 2]", "xs"), "min": ("[1, 2]", "xs"), "open": ("'f.txt'", "s"),
             "ord": ("'a'", "s[0]"), "pow": ("2, 3", "n, 2"), "print": ("1", "n"), "range": ("3", "n"), "repr": ("1", "n"),
             "reversed": ("[1, 2]", "xs"), "round": ("2.5", "n"), "set": ("[1, 2]", "xs"), "sorted": ("[2, 1]", "xs"),
             "str": ("1", "n"), "sum": ("[1, 2]", "xs"), "tuple": ("[1, 2]", "xs"), "type": ("1", "n"),
             "zip": ("[1, 2], 'ab'", "xs, s"), "filter": ("None, [0, 1]", "None, xs"), "divmod": ("7, 2", "n, 2"),
             "format": ("3, 'd'", "n, 'd'"), "hash": ("'ab'", "s"), "hex": ("255", "n"), "bin": ("5", "n"), "oct": ("8", "n"),
             "iter": ("[1, 2]", "xs"), "next": ("iter([1, 2])", "iter(xs)"), "id": ("1", "n")}
KW_ARGS = {"round": "2.567, ndigits=2", "print": "n, s, sep='-', end=''", "sorted": "xs, reverse=True", "int": "s, base=10",
           "max": "xs, key=abs", "min": "xs, default=0", "open": "s, mode='r'", "enumerate": "xs, start=1", "sum": "xs, start=0"}
METHOD_ARGS = {"center": "5", "count": "'a'", "endswith": "'b'", "find": "'a'", "index": "'a'", "join": "['x', 'y']", "ljust": "5",
               "replace": "'a', 'b'", "rfind": "'a'", "rindex": "'a'", "rjust": "5", "rsplit": "", "split": "", "startswith": "'a'",
               "zfill": "4", "format": "1", "append": "3", "extend": "[3]", "insert": "0, 3", "pop": "", "remove": "1",
               "get": "'a'", "update": "{'b': 2}", "setdefault": "'z', 0"}
STR_M = {"capitalize", "center", "count", "endswith", "find", "index", "isalnum", "isalpha", "isdigit", "islower", "isspace",
         "istitle", "isupper", "join", "ljust", "lower", "lstrip", "replace", "rfind", "rindex", "rjust", "rsplit", "rstrip",
         "split", "splitlines", "startswith", "strip", "swapcase", "title", "upper", "zfill", "format"}
LIST_M = {"append", "extend", "insert", "pop", "remove", "sort", "reverse", "index", "count", "copy", "clear"}
DICT_M = {"copy", "get", "items", "keys", "pop", "values", "update", "setdefault", "clear"}
NUM_M = {"bit_length": ("(5)", "n"), "is_integer": ("(2.5)", "fl"), "as_integer_ratio": ("(2.5)", "fl")}
EXOTIC = {
    "match": "match n:\n    case 1:\n        print('one')\n    case _:\n        print('other')\n",
    "async": "import asyncio\nasync def co():\n    await asyncio.sleep(0)\n    return 1\nprint(asyncio.run(co()))\n",
    "walrus": "if (m := len(xs)) > 1:\n    print(m)\n", "decorator": "def deco(f):\n    return f\n@deco\ndef g():\n    return 1\nprint(g())\n",
    "global": "total = 0\ndef bump():\n    global total\n    total += 1\nbump()\nprint(total)\n",
    "nonlocal": "def outer():\n    c = 0\n    def inner():\n        nonlocal c\n        c += 1\n        return c\n    return inner()\nprint(outer())\n",
    "starassign": "first, *rest = xs\nprint(first, rest)\n", "typealias": "type Pair = tuple[int, int]\np: Pair = (1, 2)\nprint(p)\n",
    "classbody": "class K:\n    count = 0\n    def __init__(self):\n        K.count += 1\nK()\nprint(K.count)\n",
    "generator": "def gen():\n    yield 1\n    yield 2\nprint(list(gen()))\n", "annassign": "total: int = 0\nnames: list[str] = []\nprint(total, names)\n",
    "delete": "tmp = 1\ndel tmp\n", "assert": "assert n == 3, 'bad'\n", "raise": "if n < 0:\n    raise ValueError('neg')\n",
    "trywithfinally": "try:\n    v = int(s)\nexcept (ValueError, TypeError) as e:\n    v = 0\nelse:\n    v += 1\nfinally:\n    print('done')\nprint(v)\n",
    "chained": "print(0 < n < 10 != 5)\n", "nestedfunc": "def a():\n    def b():\n        return n\n    return b()\nprint(a())\n",
    "lambdadefault": "fn = lambda q, r=2: q * r\nprint(fn(3))\n", "setcomp": "print({i % 2 for i in xs})\n",
    "starargs": "def va(*args, **kw):\n    return len(args) + len(kw)\nprint(va(1, 2, k=3), va(*xs, **d))\n",
    "dunder": "print(s.__class__.__name__, n.__add__(1))\n", "slicesassign": "xs[0:1] = [9, 9]\nprint(xs)\n",
    "ellipsis": "v = ...\nprint(v)\n",
    "genericann": "words = list()\nwords.append('a')\ntable = dict()\ntable['k'] = 1\ndef total(ys: list[int], m: dict[str, int]) -> int:\n    return sum(ys) + len(m)\nprint(total([1, 2], table), words)\n",
    "ctorcalls": "a1 = list('ab')\na2 = dict(a=1)\na3 = set([1])\na4 = tuple(xs)\na5 = str(n) + 'x'\na6 = int('3') + float('2.5')\nprint(a1, a2, a3, a4, a5, a6)\n", "bytes": "b = b'ab'\nprint(b[0], b.decode())\n", "complexnum": "z = 1 + 2j\nprint(z.real, abs(z))\n",
}


# how a program goes on to USE the result of each builtin (argument shape "used"): element access, iteration with
# unpacking, arithmetic, method calls -- whatever the result's type invites
USE = {"abs": "print(r + 1)", "all": "print(not r)", "any": "print(r and True)", "bool": "print(not r)", "chr": "print(r + 'x', r.upper())",
       "dict": "r['z'] = 1\nprint(r.keys())", "enumerate": "for i, v in r:\n    print(i + 1, v)\nfor p in enumerate(xs):\n    print(p[0], p[1])",
       "float": "print(r / 2)", "input": "print(r.upper(), int(r) if r else 0)", "int": "print(r + 1)", "isinstance": "print(not r)",
       "len": "print(r - 1)", "list": "r.append(1)\nprint(r[0])", "map": "for v in r:\n    print(v)\nprint(list(map(str, xs))[0])",
       "max": "print(r + 1)", "min": "print(r - 1)", "open": "print(r.read())\nr.close()", "ord": "print(r + 1)", "pow": "print(r * 2)",
       "print": "print(r is None)", "range": "for i in r:\n    print(i + 1)\nprint(len(r), r[0])", "repr": "print(r.upper())",
       "reversed": "for v in r:\n    print(v)", "round": "print(r + 1)", "set": "r.add(9)\nprint(len(r))", "sorted": "print(r[0], len(r))",
       "str": "print(r.upper(), r + 'x')", "sum": "print(r / 2)", "tuple": "print(r[0], len(r))", "type": "print(r)",
       "zip": "for a, b in r:\n    print(a, b)\nfor p in zip(xs, s):\n    print(p[0], p[1])\n    for q in p:\n        print(q)",
       "filter": "for v in r:\n    print(v)", "divmod": "print(r[0] + r[1])", "format": "print(r.upper())", "hash": "print(r + 1)",
       "hex": "print(r.upper())", "bin": "print(r.upper())", "oct": "print(r.upper())", "iter": "print(next(r))", "next": "print(r + 1)",
       "id": "print(r + 1)"}


def indent(text, n=4):
    return "\n".join(" " * n + line if line else line for line in text.split("\n"))


def in_context(body, ctx):
    if ctx == "module":
        return body
    if ctx == "function":
        return "def outer():\n" + indent(body) + "\nouter()"
    if ctx == "loop":
        return "for _k in range(2):\n" + indent(body)
    if ctx == "branch":
        return "if n > 0:\n" + indent(body) + "\nelse:\n    pass"
    if ctx == "method":
        return "class C:\n    def m(self):\n" + indent(body, 8) + "\nC().m()"
    raise ValueError(ctx)


def concretise(cell):
    k = cell["k"]
    if k == "construct":
        body = STMT[cell["s"]].replace("{E}", EXPR[cell["e"]])
        return PRELUDE + in_context(body, cell["c"]) + "\n"
    if k == "builtin":
        lit, var = FUNC_ARGS[cell["s"]]
        call = "%s(%s)" % (cell["s"], lit if cell["e"] == "literal" else var)
        if cell["e"] == "nested":
            call = "str(%s(%s))" % (cell["s"], var)
        if cell["e"] == "kw":
            return PRELUDE + in_context("r = %s(%s)\nprint(r)" % (cell["s"], KW_ARGS[cell["s"]]), cell["c"]) + "\n"
        if cell["e"] == "used":
            call = "%s(%s)" % (cell["s"], var)
            return PRELUDE + in_context("r = %s\n%s" % (call, USE[cell["s"]]), cell["c"]) + "\n"
        body = "r = %s\nprint(r)" % call
        return PRELUDE + in_context(body, cell["c"]) + "\n"
    if k == "method":
        m = cell["s"]
        args = METHOD_ARGS.get(m, "")
        if m in NUM_M:
            recv = NUM_M[m][0] if cell["e"] == "literal" else NUM_M[m][1]
        elif m in STR_M and not (m in ("index", "count", "pop", "copy", "clear") and False):
            recv = "'ab'" if cell["e"] == "literal" else "s"
        if m in LIST_M and m not in STR_M:
            recv = "[1, 2]" if cell["e"] == "literal" else "xs"
            if m in ("index", "count"):
                args = "1"
        elif m in DICT_M and m not in STR_M and m not in LIST_M:
            recv = "{'a': 1}" if cell["e"] == "literal" else "d"
        if m in ("pop", "copy", "clear", "index", "count") and cell["c"] == "function":
            # the names shared by list/dict/str: exercise the dict / str variant in the second context
            if m in ("pop",):
                recv, args = ("{'a': 1}" if cell["e"] == "literal" else "d"), "'a'"
            elif m in ("copy", "clear"):
                recv, args = ("{'a': 1}" if cell["e"] == "literal" else "d"), ""
            else:
                recv, args = ("'ab'" if cell["e"] == "literal" else "s"), "'a'"
        body = "fl = 2.5\nr = %s.%s(%s)\nprint(r)" % (recv, m, args)
        return PRELUDE + in_context(body, cell["c"]) + "\n"
    if k == "exotic":
        return PRELUDE + EXOTIC[cell["s"]]
    raise ValueError(k)


# parsable, but the evaluation of the builtin call fails inside TIFA (no positional argument reaches its definition)
FAULT = "opts = {}\nprint(sorted(**opts))\nprint(reversed(**opts))\n"
GENERIC = ("nums: list[int] = [1, 2, 3]\ntable: dict[str, int] = {}\npair: tuple[int, str] = (1, 'a')\nnames: set[str] = set()\n"
           "def total(ys: list[int], m: dict[str, int]) -> int:\n    return sum(ys) + len(m)\nprint(total(nums, table), pair, names)\n")
OTHER = "total = 0\nfor i in range(3):\n    total = total + i\nprint(total)\n"


def issues_of(res):
    out = []
    for label, items in sorted(res.issues.items()):
        for fb in items:
            out.append([label, str(fb.fields.get("name")), fb.location.line if fb.location is not None else None])
    return sorted(out, key=lambda x: (x[0], x[1], x[2] or 0))


def baseline_chunk(cells, extra):
    """Issues of each cell's program when it is the FIRST thing analysed in a fresh interpreter."""
    import json
    import os
    import subprocess
    root = os.path.dirname(os.path.dirname(os.path.abspath(__file__)))
    out = []
    for cell in cells:
        code = ("import sys, json, os; sys.path.insert(0, %r); sys.path.insert(0, %r); os.environ['PEDAL_EDU_PEDAL_VERIF']='1';"
                "from bind import tifarobust as B;"
                "from pedal.core.commands import clear_report, contextualize_report; from pedal.tifa import tifa_analysis;"
                "src = B.concretise(json.loads(%r)); clear_report(); contextualize_report(src); r = tifa_analysis(src);"
                "print('@@' + json.dumps(B.issues_of(r)))") % (os.environ.get("VERIF_REPO", "/repo"), root, json.dumps(cell))
        p = subprocess.run(["/venv/bin/python", "-c", code], stdout=subprocess.PIPE, stderr=subprocess.PIPE, text=True, timeout=120)
        got = [json.loads(line[2:]) for line in p.stdout.splitlines() if line.startswith("@@")]
        if not got:
            raise RuntimeError("baseline failed for %s: %s" % (cell, p.stderr[-500:]))
        out.append((json.dumps(cell, sort_keys=True), got[0]))
    return out


def replay_chunk(cases, extra):
    from engine.core import setup_repo_path
    setup_repo_path()
    from pedal.core.report import MAIN_REPORT as R
    from pedal.core.commands import clear_report, contextualize_report
    from pedal.tifa import tifa_analysis
    out = []
    for idx, rec in cases:
        cell = rec["cell"]
        src = concretise(cell)
        try:
            ast.parse(src)
        except SyntaxError as e:
            out.append({"cell": cell, "kind": "harness", "detail": "generated program does not parse: %s" % e, "source": src})
            continue
        progs = {"c": src, "d": OTHER, "x": FAULT, "g": GENERIC}
        nlines = {k: len(v.split("\n")) for k, v in progs.items()}
        first = {}
        if any(h["op"] == "analyze" and h["p"] == "x" for h in rec["hist"]):
            # reference result of the cell's program on a report of its own, before anything failed in this history
            from pedal.core.report import Report
            try:
                first["c"] = issues_of(tifa_analysis(src, report=Report()))
            except Exception:
                first = {}
        # every other history is analysed with the HTML formatter on the report (what the web environments install):
        # building an issue's message must not be what makes the analysis fail
        html = idx % 2 == 1
        clear_report()
        contextualize_report(src)
        if html:
            from pedal.core.formatting import HtmlFormatter
            R.set_formatter(HtmlFormatter(R))
        since_clear = {}
        for step, h in enumerate(rec["hist"], 1):
            if h["op"] == "clear":
                clear_report()
                contextualize_report(src)
                if html:
                    R.set_formatter(HtmlFormatter(R))
                since_clear = {}
                continue
            p = h["p"]
            n0 = len(R.feedback) + len(R.ignored_feedback)
            try:
                res = tifa_analysis(progs[p])
            except Exception as e:
                out.append({"cell": cell, "kind": "raised", "step": step, "detail": "%s: %s" % (type(e).__name__, e), "source": progs[p]})
                break
            n1 = len(R.feedback) + len(R.ignored_feedback)
            iss = issues_of(res)
            if p == "x" and res.success:
                out.append({"cell": cell, "kind": "harness", "step": step, "detail": "the fault program was analysed successfully; it no longer injects a failure", "source": progs[p]})
                break
            if p == "c" and cell["k"] != "exotic" and not res.success:
                out.append({"cell": cell, "kind": "incomplete", "step": step, "detail": repr(res.error)[:200], "source": progs[p]})
                break
            if p in since_clear:
                if iss != since_clear[p]:
                    out.append({"cell": cell, "kind": "not-idempotent", "step": step, "detail": "%s vs %s" % (iss[:4], since_clear[p][:4]), "source": progs[p]})
                    break
                if n1 != n0:
                    out.append({"cell": cell, "kind": "extra-feedback", "step": step, "detail": "%d feedback objects added by a repeated analysis" % (n1 - n0), "source": progs[p]})
                    break
            since_clear[p] = iss
            base = (extra or {}).get("baselines", {}).get(json.dumps(cell, sort_keys=True)) if p == "c" else None
            if base is not None and [list(x) for x in iss] != base:
                out.append({"cell": cell, "kind": "not-deterministic", "step": step,
                            "detail": "differs from a fresh interpreter: %s vs %s" % (iss[:4], base[:4]), "source": progs[p]})
                break
            if p in first and iss != first[p]:
                out.append({"cell": cell, "kind": "not-deterministic", "step": step, "detail": "%s vs %s" % (iss[:4], first[p][:4]), "source": progs[p]})
                break
            first.setdefault(p, iss)
            bad_lines = [i for i in iss if i[2] is not None and not (1 <= i[2] <= nlines[p])]
            if bad_lines:
                out.append({"cell": cell, "kind": "line-out-of-range", "step": step, "detail": str(bad_lines[:3]), "source": progs[p]})
                break
    return out
