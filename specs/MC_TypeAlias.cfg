SPECIFICATION Spec
CONSTANTS
  Vars = {"p", "q", "r"}
  ElemTypes = {"int", "str"}
  MaxStmts = 3
  AllowAlias = FALSE
INVARIANT FreshOnConcat
CONSTRAINT Export
CHECK_DEADLOCK FALSE
