------------------------------- MODULE Sandbox -------------------------------
(***************************************************************************)
(* pedal's exec-based sandbox (pedal/sandbox/sandbox.py, commands.py,      *)
(* mocked.py, feedbacks.py) as a state machine over public calls.          *)
(*                                                                         *)
(* A behaviour fixes a student file (top-level program + functions), then  *)
(* performs run / call / evaluate / clear_output / set_input / queue_input *)
(* / clear_input.  An abstract program is a short sequence of output/input *)
(* effects followed by a termination mode.                                 *)
(*                                                                         *)
(* IMPLEMENTATION-SHAPED: Exec mirrors Sandbox._execute: clear_exception,  *)
(* new context, _start_mocking (push capture buffer, push patches), exec,  *)
(* the handler chosen by the kind of termination (except Exception /       *)
(* except SystemExit / except BaseException: re-raise / else), each of     *)
(* which stops mocking, then _capture_exception, which can itself fail.    *)
(* CONTRACT: invariants Restored (C05), Contained (C04), OutputLedger and  *)
(* InputFifo (C15), stated over ghost variables that record what student   *)
(* code really wrote and read.                                             *)
(***************************************************************************)
EXTENDS Integers, Sequences, FiniteSets, TLC, Json, TextOps

CONSTANTS EffTokens, MaxEff, Modes, FnModes, MaxFns, Depth, InputOps, Flags, Entries, TracerStyles, Threadeds, Givens, Blockeds

VARIABLES file,       \* [top |-> prog, fns |-> Seq(prog)]   prog = [effs |-> Seq(token), mode |-> mode]
          pOut, pSleep, pMods,  \* process globals: "real" or "patched"
          pTrace,               \* sys.gettrace(): "orig" or "changed"
          patches, stdouts,     \* sandbox._current_patches / _current_stdout (depths, as sequences)
          raw, lines, ctxs, inputs, exc, fbs, status, defined,
          written, shares, clearedAt, q, consumed,   \* ghosts: truth about what student code did
          hist
vars == <<file, pOut, pSleep, pMods, pTrace, patches, stdouts, raw, lines, ctxs, inputs, exc, fbs, status, defined,
          written, shares, clearedAt, q, consumed, hist>>

(* ---------- effects ---------- *)
\* what an effect writes to standard output, given the value input() returned (for "in")
Wr(e) == CASE e = "pa" -> <<"a", "\n">>            \* print('a')
           [] e = "pae" -> <<"a">>                  \* print('a', end='')
           [] e = "pn" -> <<"\n">>                  \* print()
           [] e = "pas" -> <<"a", " ", "\n">>       \* print('a ')
           [] e = "pab" -> <<"a", "\t", "b", "\n">> \* print('a', 'b', sep='\t')
           [] e = "w" -> <<"b">>                    \* sys.stdout.write('b')
           [] e = "wl" -> <<"b", "\n", "a", "\n">>  \* sys.stdout.writelines(x for x in ['b\n', 'a\n']): lines from a generator
           [] e = "sp" -> <<" ", " ", "\n">>        \* print('  ')
           [] e = "pcr" -> <<"a", "\r">>            \* print('a', end='\r'): a progress line
           [] e = "pcrb" -> <<"a", "\r", "b", "\n">> \* print('a\rb')
           [] e = "wsv" -> <<"c">>                  \* saved_out.write('c') where the module did `saved_out = sys.stdout` when it
                                                    \* was RUN: standard output as the student's program knows it
           [] e = "pnn" -> <<"\n", "\n">>           \* print('\n')
           [] e = "in" -> <<"p", "\n">>             \* input('p') echoes the prompt and a newline
           [] e = "ina" -> <<"p", "\n">>            \* ask('p') where the module did `ask = input` when it was RUN: inside a later
                                                    \* call() this is the input function of an EARLIER execution; what it
                                                    \* consumes still belongs to the execution that is running now
           [] e = "rso" -> <<>>                     \* sys.stdout = io.StringIO(); sys.stdout.close(): the program replaces the
                                                    \* stream itself and leaves its own, closed one behind
           [] e = "dm" -> <<>>                      \* the program deletes, adds and rebinds entries of sys.modules itself
           [] e = "st" -> <<>>                      \* sys.settrace(None): student code drops the trace function
           [] e = "cb" -> <<>>                      \* hook(): an instructor-supplied callable that calls back into the sandbox
                                                    \* (call('cbf')) while this execution is still running: a NESTED execution
           [] e = "im" -> <<>>                      \* import helper_mod: a second student file, executed by Sandbox._import
                                                    \* inside the running execution (a nested entry point); it prints nothing
           [] OTHER -> <<>>
Reads(e) == e \in {"in", "ina"}

\* run the effects of a program against an input queue: text written, values consumed, remaining queue
RECURSIVE RunEffs(_, _, _, _)
RunEffs(effs, queue, w, used) ==
    IF effs = <<>> THEN [w |-> w, used |-> used, queue |-> queue]
    ELSE LET e == Head(effs) IN
         IF Reads(e)
         THEN LET v == IF queue = <<>> THEN "0" ELSE Head(queue)
                  rest == IF queue = <<>> THEN queue ELSE Tail(queue)
              IN RunEffs(Tail(effs), rest, w \o Wr(e), Append(used, v))
         ELSE RunEffs(Tail(effs), queue, w \o Wr(e), used)
\* the code's input tracker: flag lifo_inputs pops from the wrong end
RECURSIVE ImplEffs(_, _, _, _)
ImplEffs(effs, queue, w, used) ==
    IF effs = <<>> THEN [w |-> w, used |-> used, queue |-> queue]
    ELSE LET e == Head(effs) IN
         IF Reads(e)
         THEN LET v == IF queue = <<>> THEN "0"
                       ELSE IF "lifo_inputs" \in Flags THEN queue[Len(queue)] ELSE Head(queue)
                  rest == IF queue = <<>> THEN queue
                          ELSE IF "lifo_inputs" \in Flags THEN SubSeq(queue, 1, Len(queue) - 1) ELSE Tail(queue)
              IN ImplEffs(Tail(effs), rest, w \o Wr(e), Append(used, v))
         ELSE ImplEffs(Tail(effs), queue, w \o Wr(e), used)

(* ---------- termination modes ---------- *)
\* kinds: "normal"; "exception" (an Exception subclass reaches _execute's handler); "sysexit";
\*        "base" (other BaseException); per-mode flag: does building the feedback fail inside pedal?
\* "closeOut": the program ends normally after CLOSING the stream it prints to (sys.stdout.close()); what it had
\* printed before is still what it wrote (flag "closed_stream_loses_output": the text is gone with the stream)
\* "consoleFail": the program's last statement prints a character the REAL console cannot encode (an ASCII terminal).
\* Captured printing takes anything; under run(real_io=True) the echo to the console fails inside print(), which the
\* program experiences as an exception (UnicodeEncodeError) on that line, and that print wrote nothing.
Kind(m) == CASE m \in {"normal", "closeOut", "consoleFail"} -> "normal"
             [] m \in {"sysexit", "raiseSysExit"} -> "sysexit"
             [] m \in {"baseKbd", "baseGen", "baseCustom", "baseImport"} -> "base"
             [] OTHER -> "exception"
KindFor(m, op) == IF m = "consoleFail" THEN (IF op = "run_real" THEN "exception" ELSE "normal") ELSE Kind(m)
ModeWrites(m, op) == IF m = "consoleFail" /\ op # "run_real" THEN <<"E", "\n">> ELSE <<>>
\* C04's quantifier: everything except "base" modes and internal faults must be contained
MustContain(m) == Kind(m) \in {"exception", "sysexit"} /\ m # "internalFault"
MustContainFor(m, op) == KindFor(m, op) \in {"exception", "sysexit"} /\ m # "internalFault"
\* does pedal's own recording of the failure raise?  (none in the repaired code except the injected fault)
CaptureFails(m) == \/ m = "internalFault"
                   \/ "fragile_capture" \in Flags /\ m \in {"excBrokenStr", "nul"}

(* ---------- one execution, written like Sandbox._execute ---------- *)
\* returns the post-state fields as a record
\* a program that does not compile executes none of its effects
EffsOf(prog) == IF prog.mode \in {"syntax", "nul"} THEN <<>> ELSE prog.effs
\* nested executions started by the program (each is a complete _execute of its own: own context, own patches on top
\* of the outer ones, removed again before the outer execution continues)
NCb(prog) == Cardinality({j \in 1..Len(EffsOf(prog)) : EffsOf(prog)[j] = "cb"})
EmptyCtx == [out |-> <<>>, inputs |-> <<>>]
\* inq: the input queue the execution starts from (the sandbox's, or the one handed to run/call through inputs=)
Exec(prog, kindOfEntry, inq) ==
    LET \* clear_exception; context appended; _start_mocking
        r0 == ImplEffs(EffsOf(prog), inq, <<>>, <<>>)
        r == [r0 EXCEPT !.w = @ \o ModeWrites(prog.mode, kindOfEntry)]
        ctx0 == [out |-> <<>>, inputs |-> r.used]
        k == KindFor(prog.mode, kindOfEntry)
        \* which handler runs?  "base" has a handler that stops mocking and re-raises
        handled == k \in {"normal", "exception", "sysexit"} \/ "no_base_handler" \notin Flags
        \* flag shared_sleep_patcher: one module-level patcher object for time.sleep; it is not re-entrant, so the outer
        \* execution's clean-up fails half-way once a nested execution has used it
        brokenNest == "shared_sleep_patcher" \in Flags /\ NCb(prog) > 0
        unmocked == handled /\ ~brokenNest
        \* append_output(share): raw += share; context.output = share; line view
        share == IF prog.mode = "closeOut" /\ "closed_stream_loses_output" \in Flags THEN <<>> ELSE r.w
        raw1 == IF unmocked THEN raw \o share ELSE raw
        addLines == IF "phantom_line" \in Flags THEN raw1 # <<>> ELSE share # <<>>
        lines1 == IF unmocked /\ addLines THEN lines \o LinesOf(share) ELSE lines
        ctx1 == IF unmocked THEN [ctx0 EXCEPT !.out = share] ELSE ctx0
        failing == k \in {"exception", "sysexit"}
        captureRaises == failing /\ CaptureFails(prog.mode)
        recorded == failing /\ ~captureRaises
        n == Len(ctxs) + 1
        stUsed == \E j \in 1..Len(EffsOf(prog)) : EffsOf(prog)[j] = "st"
        \* `with self.trace.as_filename(...)`: tracers that install a trace function put the old one back on
        \* exit, however the block is left; style "none" installs nothing and restores nothing
        \* (sys.settrace is per thread: with threaded = TRUE nothing the student does reaches the caller's thread)
        \* a nested import re-enters the SAME tracer object (`with self.trace.as_filename(...)` in _import): each level
        \* must put back what it found; flag tracer_not_reentrant keeps one saved slot, so the outer exit restores
        \* pedal's own trace function and it stays installed after the call
        imUsed == \E j \in 1..Len(EffsOf(prog)) : EffsOf(prog)[j] = "im"
        trace1 == IF file.threaded THEN pTrace
                  ELSE IF file.tracer = "none" \/ "tracer_conditional_restore" \in Flags
                  THEN (IF stUsed THEN "changed" ELSE pTrace)
                  ELSE IF imUsed /\ ~stUsed /\ "tracer_not_reentrant" \in Flags THEN "changed" ELSE "orig"
    IN [ pTrace |-> trace1, pOut |-> IF unmocked THEN "real" ELSE "patched",
         pSleep |-> IF unmocked THEN "real" ELSE "patched",
         pMods |-> IF unmocked THEN "real" ELSE "patched",
         patches |-> IF unmocked THEN patches ELSE Append(patches, n),
         stdouts |-> IF unmocked THEN stdouts ELSE Append(stdouts, n),
         raw |-> raw1, lines |-> lines1,
         ctxs |-> Append(ctxs, ctx1) \o [j \in 1..NCb(prog) |-> EmptyCtx],      \* the nested contexts follow the outer one
         inputs |-> r.queue,
         exc |-> IF recorded \/ captureRaises THEN prog.mode ELSE "none",
         fbs |-> IF recorded THEN Append(fbs, [exec |-> n, mode |-> prog.mode]) ELSE fbs,
         status |-> IF k = "base" \/ captureRaises \/ brokenNest THEN "raised" ELSE "returned",
         share |-> share, used |-> r.used ]

Proj == [pTrace |-> pTrace, pOut |-> pOut, pSleep |-> pSleep, pMods |-> pMods, patches |-> Len(patches), stdouts |-> Len(stdouts),
         raw |-> raw, lines |-> lines, ctxs |-> ctxs, inputs |-> inputs, exc |-> exc, fbs |-> fbs,
         status |-> status]
Step(a) == hist' = Append(hist, [a |-> a, s |-> Proj'])
CanAct == Len(hist) < Depth
A(op, i, xs) == [op |-> op, i |-> i, xs |-> xs]

\* run(inputs=xs) / call(..., inputs=xs): the convenience parameter REPLACES the queue (set_input) before executing,
\* also when xs is empty or a lone empty string; flag "falsy_inputs_ignored" models a truthiness test on it
GivenSeq(g) == CASE g = "empty" -> <<>> [] g = "one" -> <<"i1">> [] g = "blank" -> <<"">> [] OTHER -> <<"i1", "i2">>
Honoured(a) == a.op \in {"run_in", "call_in"} /\ ~("falsy_inputs_ignored" \in Flags /\ a.xs \in {<<>>, <<"">>})
DoExec(prog, a) ==
    LET x == Exec(prog, a.op, IF Honoured(a) THEN a.xs ELSE inputs)
        \* ghost: what the student code really did, starting from the queue the caller asked for
        g0 == RunEffs(EffsOf(prog), IF a.op \in {"run_in", "call_in"} THEN a.xs ELSE q, <<>>, <<>>)
        g == [g0 EXCEPT !.w = @ \o ModeWrites(prog.mode, a.op)]
    IN /\ pTrace' = x.pTrace /\ pOut' = x.pOut /\ pSleep' = x.pSleep /\ pMods' = x.pMods /\ patches' = x.patches
       /\ stdouts' = x.stdouts /\ raw' = x.raw /\ lines' = x.lines /\ ctxs' = x.ctxs
       /\ inputs' = IF a.op = "run_real" THEN <<>> ELSE x.inputs
       /\ exc' = x.exc /\ fbs' = x.fbs /\ status' = x.status
       /\ written' = written \o g.w /\ shares' = Append(shares, g.w) \o [j \in 1..NCb(prog) |-> <<>>]
       /\ q' = IF a.op = "run_real" THEN <<>> ELSE g.queue
       /\ consumed' = Append(consumed, g.used) \o [j \in 1..NCb(prog) |-> <<>>]
       /\ defined' = (defined \/ (a.op \in {"run", "run_real"} /\ prog.mode \notin {"syntax", "nul"}))
       /\ UNCHANGED <<file, clearedAt>> /\ Step(a)

\* nothing may be executed while a previous call left the process patched (the harness stops there)
Clean == pOut = "real" /\ patches = <<>>
Run == CanAct /\ Clean /\ "run" \in Entries /\ DoExec(file.top, A("run", 0, <<>>))
Call(i) == CanAct /\ Clean /\ defined /\ "call" \in Entries /\ i \in 1..Len(file.fns) /\ DoExec(file.fns[i], A("call", i, <<>>))
\* run(real_io=True): print also goes to the real console and input() is the real one while the program runs; what
\* is captured is the same, and afterwards the input queue is empty (clear_input).  Only for programs that do not
\* read (the real stdin is not the checker's to feed).
NoReads(prog) == \A j \in 1..Len(prog.effs) : ~Reads(prog.effs[j])
RunReal == CanAct /\ Clean /\ "run_real" \in Entries /\ NoReads(file.top) /\ DoExec(file.top, A("run_real", 0, <<>>))
RunIn(g) == CanAct /\ Clean /\ "run" \in Entries /\ DoExec(file.top, A("run_in", 0, GivenSeq(g)))
CallIn(i, g) == CanAct /\ Clean /\ defined /\ "call" \in Entries /\ i \in 1..Len(file.fns) /\ DoExec(file.fns[i], A("call_in", i, GivenSeq(g)))
Evaluate(i) == CanAct /\ Clean /\ defined /\ "evaluate" \in Entries /\ i \in 1..Len(file.fns) /\ DoExec(file.fns[i], A("evaluate", i, <<>>))

Quiet(a) == /\ status' = "returned" /\ UNCHANGED <<file, pOut, pSleep, pMods, pTrace, patches, stdouts, ctxs, exc, fbs, shares, consumed, defined>>
            /\ Step(a)
ClearOutput == /\ CanAct /\ Clean /\ "clear_output" \in InputOps
               /\ raw' = <<>> /\ lines' = <<>> /\ written' = <<>> /\ clearedAt' = Len(shares)
               /\ UNCHANGED <<inputs, q>> /\ Quiet(A("clear_output", 0, <<>>))
SetInput(xs, clr) == /\ CanAct /\ Clean /\ "set_input" \in InputOps
                     /\ inputs' = IF clr THEN xs ELSE inputs \o xs
                     /\ q' = IF clr THEN xs ELSE q \o xs
                     /\ UNCHANGED <<raw, lines, written, clearedAt>>
                     /\ Quiet(A(IF clr THEN "set_input" ELSE "queue_input", 0, xs))
ClearInput == /\ CanAct /\ Clean /\ "clear_input" \in InputOps /\ inputs' = <<>> /\ q' = <<>>
              /\ UNCHANGED <<raw, lines, written, clearedAt>> /\ Quiet(A("clear_input", 0, <<>>))

\* set_input(get_input()): the instructor hands the queue back as it is (typically with something appended): the queue
\* is what it was
SetInputSelf == /\ CanAct /\ Clean /\ "set_input_self" \in InputOps
                /\ UNCHANGED <<inputs, q, raw, lines, written, clearedAt>> /\ Quiet(A("set_input_self", 0, <<>>))

(* ---------- files ---------- *)
SeqsUpTo(S, n) == UNION {[1..k -> S] : k \in 0..n}
TopProgs == [effs : SeqsUpTo(EffTokens, MaxEff), mode : Modes]
FnProgs == [effs : SeqsUpTo(EffTokens, MaxEff), mode : FnModes]
\* threaded = TRUE: executions go through the helper thread with a time limit (they all end by themselves here;
\* time-limit violations are TimeoutRace.tla's); unbounded recursion is left to the unthreaded runs
\* blocked: a module the INSTRUCTOR blocked for student code (block_module) before the first execution.  The programs
\* here never import it, so it changes nothing in what an execution does -- in particular the modules pedal's own
\* patching needs ("time" for time.sleep, "sys" for sys.stdout) must still be reachable for pedal itself
Files == {f \in [top : TopProgs, fns : SeqsUpTo(FnProgs, MaxFns), tracer : TracerStyles, threaded : Threadeds,
                 blocked : Blockeds] :
            f.threaded => (/\ f.top.mode # "recursion" /\ \A i \in 1..Len(f.fns) : f.fns[i].mode # "recursion"
                           /\ NCb(f.top) = 0 /\ \A i \in 1..Len(f.fns) : NCb(f.fns[i]) = 0)}

Init == /\ file \in Files
        /\ pOut = "real" /\ pSleep = "real" /\ pMods = "real" /\ pTrace = "orig" /\ patches = <<>> /\ stdouts = <<>>
        /\ raw = <<>> /\ lines = <<>> /\ ctxs = <<>> /\ inputs = <<>> /\ exc = "none" /\ fbs = <<>>
        /\ status = "returned" /\ defined = FALSE /\ written = <<>> /\ shares = <<>> /\ clearedAt = 0 /\ q = <<>>
        /\ consumed = <<>> /\ hist = <<>>

Next == \/ Run \/ RunReal \/ (\E i \in 1..MaxFns : Call(i) \/ Evaluate(i))
        \/ (\E g \in Givens : RunIn(g) \/ \E i \in 1..MaxFns : CallIn(i, g))
        \/ ClearOutput \/ ClearInput \/ SetInputSelf
        \/ \E xs \in {<<"i1">>, <<"i1", "i2">>, <<>>}, c \in BOOLEAN : SetInput(xs, c)
Spec == Init /\ [][Next]_vars

(* ---------- CONTRACT ---------- *)
LastA == hist[Len(hist)].a
WasExec == hist # <<>> /\ LastA.op \in {"run", "call", "evaluate", "run_in", "call_in", "run_real"}
LastProg == IF LastA.op \in {"run", "run_in", "run_real"} THEN file.top ELSE file.fns[LastA.i]
OuterIdx == Len(ctxs) - NCb(LastProg)      \* the context of the last entry-point execution (nested ones come after it)
\* C05
Restored == /\ pOut = "real" /\ pSleep = "real" /\ pMods = "real" /\ patches = <<>> /\ stdouts = <<>>
            /\ (file.tracer # "none" => pTrace = "orig")      \* "when tracing is enabled"
\* C04
Contained == WasExec /\ MustContainFor(LastProg.mode, LastA.op) =>
    /\ status = "returned" /\ exc = LastProg.mode
    /\ Cardinality({k \in 1..Len(fbs) : fbs[k].exec = OuterIdx}) = 1
    /\ \A k \in 1..Len(fbs) : fbs[k].exec = OuterIdx => fbs[k].mode = LastProg.mode
NoSpuriousFb == WasExec /\ KindFor(LastProg.mode, LastA.op) = "normal" =>
    status = "returned" /\ exc = "none" /\ ~\E k \in 1..Len(fbs) : fbs[k].exec = OuterIdx
\* C15
RECURSIVE LinesFrom(_, _)
LinesFrom(ss, i) == IF i > Len(ss) THEN <<>>
                    ELSE (IF ss[i] = <<>> THEN <<>> ELSE LinesOf(ss[i])) \o LinesFrom(ss, i + 1)
OutputLedger == Restored =>
    /\ raw = written
    /\ Len(ctxs) = Len(shares) /\ \A i \in 1..Len(ctxs) : ctxs[i].out = shares[i]
    /\ lines = LinesFrom(shares, clearedAt + 1)
InputFifo == /\ inputs = q
             /\ Len(ctxs) = Len(consumed) /\ \A i \in 1..Len(ctxs) : ctxs[i].inputs = consumed[i]

Complete == Len(hist) = Depth \/ ~Clean
Export == (Complete /\ hist # <<>>) => PrintT(<<"VP", ToJson([file |-> file, hist |-> hist])>>)
=============================================================================
