SPECIFICATION Spec
CONSTANTS
  BinOps = {"add", "sub", "mul", "truediv", "floordiv", "mod", "divmod", "pow", "matmul", "and", "or", "xor", "lshift", "rshift", "lt", "le", "gt", "ge", "eq", "ne", "contains", "getitem", "isinstance", "format", "round2", "instanceof", "subclassof"}
  UnOps = {"neg", "pos", "abs", "invert", "len", "iter", "hash", "bool", "str", "repr", "int", "float", "complex", "round", "trunc", "floor", "ceil", "pow3", "index", "reversed", "bytes", "next", "forloop", "unpack"}
  Classes = {"int", "negint", "zero", "float", "bool", "str", "list", "tuple", "dict", "set", "none", "complex", "fwd", "refl", "decline", "sub", "valobj", "iterobj", "gen", "inf", "clsint", "clsuser", "record"}
  MaxChain = 0
INVARIANT TypeOK
CONSTRAINT Export
CHECK_DEADLOCK FALSE
