SPECIFICATION Spec
CONSTANTS
  Features <- AllFeatures
  MaxCount = 2
  MaxThr = 2
  Places = {"top", "func", "chain"}
  Flags = {}
INVARIANT ThresholdLaw
CONSTRAINT Export
CHECK_DEADLOCK FALSE
