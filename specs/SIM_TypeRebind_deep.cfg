SPECIFICATION Spec
CONSTANTS
  Types = {"int", "float", "str", "list", "tuple"}
  BinOps = {"+", "-", "*", "/", "//", "%", "**", "<<", ">>", "|", "^", "&", "@"}
  MaxRebinds = 4
  UseK = TRUE
INVARIANT TypeOK
PROPERTY StopsAtError
CONSTRAINT Export
CHECK_DEADLOCK FALSE
