---------------------------- MODULE SourceVerify ----------------------------
(***************************************************************************)
(* Source.verify (pedal/source/source.py, feedbacks.py) against CPython's  *)
(* parser (C12).  The parser's answer for the offered text is a logged     *)
(* environment fact: class in {ok, blank, syntax, indent} with the line it *)
(* reports (0 = no line) ; `offset` is the submission's line offset when a *)
(* section is presented.  The state is what the report holds afterwards.   *)
(* CONTRACT per call: verify never raises; a syntax-category feedback      *)
(* (syntax_error / indentation_error) is attached iff the parser rejected  *)
(* the text; its line is the parser's line + offset; blank text is         *)
(* reported as blank; when the text parses the stored tree is the one      *)
(* CPython produces for THIS text and no syntax feedback is attached.      *)
(***************************************************************************)
EXTENDS Integers, Sequences, FiniteSets, TLC, Json
CONSTANTS Classes, MaxCalls, Offsets

VARIABLES hist, tree, success
vars == <<hist, tree, success>>
\* expected observable effect of one call, as a function of the parser's answer
\* "unencodable": the text cannot be handed to the parser at all (a lone surrogate); "resource": the parser gives up
\* (nesting too deep for its stack) -- both are rejections, reported without a line
Rejected(c) == c \in {"syntax", "indent", "tab", "nul", "syntax_noline", "unencodable", "resource"}
Expect(c, k) == [raised |-> FALSE,
                 syntaxfb |-> Rejected(c),
                 blankfb |-> c = "blank",
                 tree |-> IF Rejected(c) THEN 0 ELSE k,      \* k identifies the text of this call; 0 = the empty module
                 success |-> ~Rejected(c) /\ c # "blank"]
Init == hist = <<>> /\ tree = -1 /\ success = FALSE
Verify(c, off) == /\ Len(hist) < MaxCalls
                  /\ LET k == Len(hist) + 1  e == Expect(c, k) IN
                     /\ hist' = Append(hist, [c |-> c, off |-> off, exp |-> e])
                     /\ tree' = e.tree /\ success' = e.success
Next == \E c \in Classes, off \in Offsets : Verify(c, off)
Spec == Init /\ [][Next]_vars

\* the stored tree always belongs to the LAST verified text (or is the empty module after a rejection)
TreeIsCurrent == hist # <<>> => tree \in {Len(hist), 0}
Export == Len(hist) = MaxCalls => PrintT(<<"VP", ToJson([hist |-> hist])>>)

\* ---- the per-call contract on a logged observation (used by TraceVerify)
\* ev: [cls, line, offset, raised, nsyntax, fbline, blankfb, tree_ok, tbline]   (tbline: the line of the traceback frame
\* shown inside the syntax feedback, 0 when there is none)
CallOk(ev) == /\ ~ev.raised
              /\ (ev.nsyntax >= 1) <=> Rejected(ev.cls)
              /\ (Rejected(ev.cls) /\ ev.line # 0) => ev.fbline = ev.line + ev.offset
              /\ ev.cls = "blank" => ev.blankfb
              /\ ~Rejected(ev.cls) => ev.tree_ok
              /\ (Rejected(ev.cls) /\ ev.line # 0 /\ ev.tbline # 0) => ev.tbline = ev.line + ev.offset
              \* msgline: a line the PARSER's own message quotes ("... after 'if' statement on line K"), fbmsgline: the number
              \* standing there in the text the learner reads (0 = none)
              /\ (Rejected(ev.cls) /\ ev.msgline # 0 /\ ev.fbmsgline # 0) => ev.fbmsgline = ev.msgline + ev.offset
FailMask(ev) == (IF ev.raised THEN 1 ELSE 0)
              + (IF ~ev.raised /\ ((ev.nsyntax >= 1) # Rejected(ev.cls)) THEN 2 ELSE 0)
              + (IF ~ev.raised /\ Rejected(ev.cls) /\ ev.line # 0 /\ ev.nsyntax >= 1 /\ ev.fbline # ev.line + ev.offset THEN 4 ELSE 0)
              + (IF ~ev.raised /\ ev.cls = "blank" /\ ~ev.blankfb THEN 8 ELSE 0)
              + (IF ~ev.raised /\ ~Rejected(ev.cls) /\ ~ev.tree_ok THEN 16 ELSE 0)
              + (IF ~ev.raised /\ Rejected(ev.cls) /\ ev.line # 0 /\ ev.tbline # 0 /\ ev.tbline # ev.line + ev.offset THEN 32 ELSE 0)
              + (IF ~ev.raised /\ Rejected(ev.cls) /\ ev.msgline # 0 /\ ev.fbmsgline # 0 /\ ev.fbmsgline # ev.msgline + ev.offset THEN 64 ELSE 0)
=============================================================================
