SPECIFICATION Spec
CONSTANTS
  EffTokens = {"pa", "pae", "in", "w", "sp", "pcr", "pcrb"}
  MaxEff = 2
  Modes = {"normal", "exc", "sysexit", "closeOut"}
  FnModes = {"normal", "exc"}
  MaxFns = 1
  Depth = 9
  InputOps = {"clear_output", "set_input", "queue_input", "clear_input"}
  Entries = {"run", "call", "evaluate"}
  TracerStyles = {"none"}
  Threadeds = {FALSE}
  Givens = {"empty", "one"}
  Blockeds = {"none"}
  Flags = {}
INVARIANT Restored
INVARIANT Contained
INVARIANT NoSpuriousFb
INVARIANT OutputLedger
INVARIANT InputFifo
CONSTRAINT Export
CHECK_DEADLOCK FALSE
