SPECIFICATION Spec
CONSTANTS
  Stmts = {"px", "pe", "ps", "inc", "dbl", "in", "pv"}
  Modes = {"normal", "ValueError", "ZeroDivisionError", "NameError", "IndexError", "KeyError", "custom", "annotation"}
  MaxLen = 4
  ArgClasses = {"int", "negint", "float", "inf", "ninf", "nan", "str", "strq", "bool", "none", "list", "longlist", "nested", "tuple", "empty", "set", "longstr", "object", "bytes", "complex", "bigint", "range"}
  Fns = {"ident", "describe", "mutate", "picky", "two", "alias_mutate", "shadowing"}
INVARIANT EquivPlain
CONSTRAINT Export
CONSTRAINT ExportCall
CHECK_DEADLOCK FALSE
