------------------------------ MODULE CaitMatch ------------------------------
(***************************************************************************)
(* CAIT pattern matching (pedal/cait/stretchy_tree_matching.py, ast_map.py)*)
(* CONTRACT for C10: every AstMap returned by find_matches is witnessed by *)
(* a genuine embedding of the pattern tree P into the student tree S.      *)
(*                                                                         *)
(* Trees are flat: a sequence of nodes                                     *)
(*   [kind, text, parent, field, idx, ph]                                  *)
(* numbered in pre-order (the numbering CAIT itself uses for tree_id + 1); *)
(* text is the literal / identifier content ("" when the kind has none);   *)
(* ph is the placeholder class of a PATTERN node:                          *)
(*   "none" | "wild" (___) | "var" (_x_) | "expr" (__e__) | "stmt"         *)
(*   (a statement-level wildcard: `pass`, or a bare ___ / __e__ statement) *)
(*   | "skip" (expression context nodes, trimmed wrappers, nodes below a   *)
(*   placeholder: not part of the embedding).                              *)
(* A witness is the set of pairs <<p, s>> logged from AstMap.mappings plus *)
(* the symbol table (placeholder name -> student identifiers) and the      *)
(* expression table (placeholder name -> student node).                    *)
(***************************************************************************)
EXTENDS Integers, Sequences, FiniteSets, TLC

Commutative(k) == k \in {"Add", "Mult"}

Dom(m) == {pr[1] : pr \in m}
Img(m, p) == CHOOSE s \in {pr[2] : pr \in {q \in m : q[1] = p}} : TRUE
Functional(m) == \A a, b \in m : a[1] = b[1] => a[2] = b[2]

\* pattern nodes that must take part in the embedding
Required(P) == {p \in 1..Len(P) : P[p].ph \in {"none", "wild", "var", "expr", "stmt"}}

\* is the parent's operator commutative?  (operands of + and * may be swapped)
OpOf(T, n) == LET ops == {c \in 1..Len(T) : T[c].parent = n /\ T[c].field = "op"} IN
              IF ops = {} THEN "" ELSE T[CHOOSE c \in ops : TRUE].kind
SwapOK(P, S, p, s) == /\ P[P[p].parent].kind = "BinOp" /\ Commutative(OpOf(P, P[p].parent))
                      /\ P[p].field \in {"left", "right"} /\ S[s].field \in {"left", "right"}

\* --- the clauses of the contract, each over one witness
KindsAndContent(P, S, m) == \A pr \in m :
    LET p == pr[1]  s == pr[2] IN
    P[p].ph = "none" => P[p].kind = S[s].kind /\ (P[p].text = S[s].text \/ P[p].text = "*")
Covered(P, m) == \A p \in Required(P) : p \in Dom(m)
ParentsAgree(P, S, m) == \A pr \in m :
    LET p == pr[1]  s == pr[2] IN
    (P[p].parent # 0 /\ P[p].parent \in Dom(m)) =>
        /\ S[s].parent = Img(m, P[p].parent)
        /\ (S[s].field = P[p].field \/ SwapOK(P, S, p, s))
OrderKept(P, S, m) == \A a, b \in m :
    (/\ P[a[1]].parent = P[b[1]].parent /\ P[a[1]].parent # 0 /\ P[a[1]].field = P[b[1]].field
     /\ P[a[1]].idx < P[b[1]].idx /\ S[a[2]].field = S[b[2]].field) => S[a[2]].idx < S[b[2]].idx
Injective(m) == \A a, b \in m : a[2] = b[2] => a[1] = b[1]
\* every _x_ is bound to ONE student identifier, the one standing where the placeholder stands
\* sym is a sequence of [v |-> placeholder name, ids |-> <<student identifiers>>]
VarsSingle(P, S, m, sym) ==
    /\ \A k \in 1..Len(sym) :
        /\ \A i, j \in 1..Len(sym[k].ids) : sym[k].ids[i] = sym[k].ids[j]
        /\ \A pr \in m : (P[pr[1]].ph = "var" /\ P[pr[1]].text = sym[k].v) =>
                              (sym[k].ids # <<>> /\ S[pr[2]].text = sym[k].ids[1])
    /\ \A pr \in m : P[pr[1]].ph = "var" => \E k \in 1..Len(sym) : sym[k].v = P[pr[1]].text
\* every __e__ is bound to exactly the student subtree standing at its position
\* exps is a sequence of [e |-> placeholder name, s |-> student node]
ExprsExact(P, m, exps) ==
    /\ \A k \in 1..Len(exps) : \A pr \in m : (P[pr[1]].ph = "expr" /\ P[pr[1]].text = exps[k].e) => exps[k].s = pr[2]
    /\ \A pr \in m : P[pr[1]].ph = "expr" => \E k \in 1..Len(exps) : exps[k].e = P[pr[1]].text

IsEmbedding(P, S, m, sym, exps) ==
    /\ Functional(m) /\ Injective(m) /\ KindsAndContent(P, S, m) /\ Covered(P, m)
    /\ ParentsAgree(P, S, m) /\ OrderKept(P, S, m) /\ VarsSingle(P, S, m, sym) /\ ExprsExact(P, m, exps)

\* bitmask of failing clauses, for verdicts that name the clause
FailMask(P, S, m, sym, exps) ==
      (IF Functional(m) /\ Injective(m) THEN 0 ELSE 1)
    + (IF ~Functional(m) \/ KindsAndContent(P, S, m) THEN 0 ELSE 2)
    + (IF Covered(P, m) THEN 0 ELSE 4)
    + (IF ~Functional(m) \/ ParentsAgree(P, S, m) THEN 0 ELSE 8)
    + (IF ~Functional(m) \/ OrderKept(P, S, m) THEN 0 ELSE 16)
    + (IF VarsSingle(P, S, m, sym) THEN 0 ELSE 32)
    + (IF ExprsExact(P, m, exps) THEN 0 ELSE 64)
=============================================================================
