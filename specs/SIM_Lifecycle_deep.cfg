SPECIFICATION Spec
CONSTANTS
  Cls = {"P", "C", "N", "I", "T"}
  MsgKinds = {"explicit", "kwtemplate", "class", "kwnested", "kwcustom", "kwattr", "kwhostile", "kwshared"}
  Outs = {"T", "F", "CR", "MR", "CX"}
  DelayCls = {"P", "C"}
  Vals = {"o1", "o2"}
  Depth = 9
  MaxObjs = 5
  Parents = {"none", "str"}
  Fmts = {"F1", "F2", "F3"}
  BadOverrides = TRUE
  SecondReport = TRUE
  Variant = "impl"
INVARIANT ExactlyOnce
INVARIANT RightList
INVARIANT Truth
INVARIANT ErrorPath
INVARIANT RaisesToCaller
INVARIANT MessageDerivation
INVARIANT OverridesRestored
CONSTRAINT Export
CHECK_DEADLOCK FALSE
