------------------------------ MODULE TifaLoops ------------------------------
(***************************************************************************)
(* Ground truth for programs with loops and function calls (second clause  *)
(* of C09: "any read that is unassigned on some real execution is still    *)
(* reported at that line").  Programs are built token by token; the state  *)
(* carries the set of concrete stores reachable under every combination of *)
(* branch outcomes and loop iteration counts.  Definedness only grows      *)
(* along an execution, so a read inside a loop body is unassigned on some  *)
(* execution iff it is unassigned in the first iteration: the body is      *)
(* evaluated on the loop-entry stores, and the loop exit is                *)
(*   entry                      for a loop over an empty literal,          *)
(*   body(entry)                for a loop over a non-empty literal,       *)
(*   entry \cup body(entry)     for `while` / an unknown iterable.         *)
(* A function body (reads of globals) is evaluated at every call with the  *)
(* stores of the call site.                                                *)
(***************************************************************************)
EXTENDS Naturals, Sequences, FiniteSets, TLC, Json
CONSTANTS Vars, MaxTok, MaxDepth, LoopKinds, Funcs

VARIABLES prog, open, gt, gtStack, gtReads, fnBody, inDef
vars == <<prog, open, gt, gtStack, gtReads, fnBody, inDef>>

Store0 == [v \in Vars |-> FALSE]
Tok(t, v, w) == [t |-> t, v |-> v, w |-> w]
Len1 == Len(prog) + 1
CanAdd == Len(prog) < MaxTok

Init == /\ prog = <<>> /\ open = <<>> /\ gt = {Store0} /\ gtStack = <<>> /\ gtReads = <<>>
        /\ fnBody = <<>> /\ inDef = FALSE

Assign(v) == /\ CanAdd /\ ~inDef /\ prog' = Append(prog, Tok("A", v, "-"))
             /\ gt' = {[s EXCEPT ![v] = TRUE] : s \in gt}
             /\ UNCHANGED <<open, gtStack, gtReads, fnBody, inDef>>
Read(v) == /\ CanAdd /\ prog' = Append(prog, Tok("R", v, "-"))
           /\ IF inDef THEN /\ fnBody' = Append(fnBody, [tok |-> Len1, v |-> v]) /\ UNCHANGED gtReads
              ELSE /\ gtReads' = Append(gtReads, [tok |-> Len1, v |-> v, seen |-> {s[v] : s \in gt}])
                   /\ UNCHANGED fnBody
           /\ UNCHANGED <<open, gt, gtStack, inDef>>
IfBegin == /\ CanAdd /\ ~inDef /\ Len(open) < MaxDepth /\ prog' = Append(prog, Tok("I", "-", "-"))
           /\ open' = <<"then">> \o open /\ gtStack' = <<[pre |-> gt, thenOut |-> {}]>> \o gtStack
           /\ UNCHANGED <<gt, gtReads, fnBody, inDef>>
Else == /\ CanAdd /\ open # <<>> /\ Head(open) = "then" /\ prog[Len(prog)].t # "I"
        /\ prog' = Append(prog, Tok("E", "-", "-")) /\ open' = <<"else">> \o Tail(open)
        /\ gtStack' = <<[Head(gtStack) EXCEPT !.thenOut = gt]>> \o Tail(gtStack) /\ gt' = Head(gtStack).pre
        /\ UNCHANGED <<gtReads, fnBody, inDef>>
\* loops: "while" (opaque condition), "forE" (for i in []), "forN" (for i in [1, 2]), "forU" (for i in xs, xs unknown)
LoopBegin(k) == /\ CanAdd /\ ~inDef /\ Len(open) < MaxDepth /\ prog' = Append(prog, Tok("L", "-", k))
                /\ open' = <<k>> \o open /\ gtStack' = <<[pre |-> gt, thenOut |-> {}]>> \o gtStack
                /\ gt' = IF k = "forE" THEN {} ELSE gt      \* the body of a loop over [] never runs
                /\ UNCHANGED <<gtReads, fnBody, inDef>>
DefBegin == /\ CanAdd /\ Funcs /\ ~inDef /\ open = <<>> /\ fnBody = <<>> /\ ~\E i \in 1..Len(prog) : prog[i].t = "D"
            /\ prog' = Append(prog, Tok("D", "-", "-")) /\ inDef' = TRUE /\ open' = <<"def">>
            /\ UNCHANGED <<gt, gtStack, gtReads, fnBody>>
Call == /\ CanAdd /\ ~inDef /\ \E i \in 1..Len(prog) : prog[i].t = "D"
        /\ prog' = Append(prog, Tok("K", "-", "-"))
        /\ gtReads' = gtReads \o [i \in 1..Len(fnBody) |-> [tok |-> fnBody[i].tok, v |-> fnBody[i].v,
                                                            seen |-> {s[fnBody[i].v] : s \in gt}]]
        /\ UNCHANGED <<open, gt, gtStack, fnBody, inDef>>
End == /\ CanAdd /\ open # <<>> /\ prog[Len(prog)].t \notin {"I", "E", "L", "D"}
       /\ prog' = Append(prog, Tok("X", "-", "-")) /\ open' = Tail(open)
       /\ IF Head(open) = "def" THEN inDef' = FALSE /\ UNCHANGED <<gt, gtStack>>
          ELSE /\ inDef' = inDef
               /\ LET fr == Head(gtStack) IN
                  gt' = CASE Head(open) = "then" -> gt \cup fr.pre
                          [] Head(open) = "else" -> fr.thenOut \cup gt
                          [] Head(open) = "forE" -> fr.pre
                          [] Head(open) = "forN" -> gt
                          [] OTHER -> fr.pre \cup gt          \* while, forU
               /\ gtStack' = Tail(gtStack)
       /\ UNCHANGED <<gtReads, fnBody>>

Next == \/ \E v \in Vars : Assign(v) \/ Read(v)
        \/ IfBegin \/ Else \/ End \/ (\E k \in LoopKinds : LoopBegin(k)) \/ DefBegin \/ Call
Spec == Init /\ [][Next]_vars

Complete == open = <<>>
HasLoopOrCall == \E i \in 1..Len(prog) : prog[i].t \in {"L", "K"}
\* sanity invariants of the ground truth itself
StoresNonEmptyOutsideDeadCode == (\A i \in 1..Len(open) : open[i] # "forE") => gt # {}
DefsOnlyGrow == \A s \in gt : \A v \in Vars : s[v] => \E i \in 1..Len(prog) : prog[i].t = "A" /\ prog[i].v = v
Export == Complete /\ HasLoopOrCall /\ gtReads # <<>> =>
    PrintT(<<"VP", ToJson([prog |-> prog,
                           reads |-> [i \in 1..Len(gtReads) |-> [tok |-> gtReads[i].tok, v |-> gtReads[i].v,
                                                                 must |-> FALSE \in gtReads[i].seen]]])>>)
=============================================================================
