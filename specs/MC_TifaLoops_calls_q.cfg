SPECIFICATION Spec
CONSTANTS
  Vars = {"y"}
  MaxTok = 9
  MaxDepth = 2
  LoopKinds = {}
  Funcs = TRUE
INVARIANT StoresNonEmptyOutsideDeadCode
INVARIANT DefsOnlyGrow
CONSTRAINT Export
CHECK_DEADLOCK FALSE
