#!/bin/bash
# run_all.sh <tier> : run every claimed check once, print one summary line each
tier=${1:-quick}
for p in C01 C02 C03 C04 C05 C06 C07 C08 C09 C10 C11 C12 C13 C14 C15 C16 C17 C18 C19 C20; do
  s=$(date +%s); timeout 3600 /verif/check $p --tier $tier > /verif/build/run_$p.$tier.log 2>&1; rc=$?
  echo "$p $tier exit=$rc $(( $(date +%s) - s ))s :: $(grep -v '^s$' /verif/build/run_$p.$tier.log | tail -1 | cut -c1-160)"
done
