SPECIFICATION Spec
CONSTANTS
  Cats = {"instructor"}
  Prios = {"none"}
  Trigs = {FALSE, TRUE}
  Muteds = {FALSE}
  Kinds = {"Mistake"}
  Elses = {FALSE}
  Labels = {"a"}
  Flds = {"f1"}
  Corrects = {"F"}
  Valences = {"neg", "pos"}
  Scores = {"12.5%", "0.125", "+37.5%", "-12.5%", "0.625"}
  Unscoreds = {FALSE}
  Msgs = {"text"}
  SuppU <- SuppScore
  MaxFb = 3
  MaxSupp = 0
  Variant = "round_each"
INVARIANT ScoreIs
CHECK_DEADLOCK FALSE
