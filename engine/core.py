"""Shared plumbing for checks: context, evidence, known findings, replay files, sharded execution."""
import json
import os
import sys
import time
import traceback
import multiprocessing as mp

ROOT = os.path.dirname(os.path.dirname(os.path.abspath(__file__)))
REPO = os.environ.get("VERIF_REPO", "/repo")
GUARD = "PEDAL_EDU_PEDAL_VERIF"


def setup_repo_path():
    """Make `import pedal` resolve to the current working tree of /repo with hooks enabled."""
    os.environ[GUARD] = "1"
    os.environ.setdefault("PYTHONHASHSEED", "0")
    if REPO not in sys.path:
        sys.path.insert(0, REPO)
    import pedal  # noqa
    if not os.path.abspath(pedal.__file__).startswith(os.path.abspath(REPO)):
        raise RuntimeError("pedal imported from %s, expected %s" % (pedal.__file__, REPO))


class Findings:
    def __init__(self):
        path = os.path.join(ROOT, "known_findings.json")
        self.entries = json.load(open(path)) if os.path.exists(path) else []

    def known(self, prop, key):
        for e in self.entries:
            if e.get("status", "known") == "known" and e["property"] == prop and e["key"] == key:
                return e
        return None


class Ctx:
    """One check run: collects violations, known findings, coverage and writes evidence."""

    def __init__(self, prop, tier, seed, level="model_checking"):
        self.prop = prop
        self.tier = tier
        self.seed = seed
        self.level = level
        self.t0 = time.time()
        self.findings = Findings()
        self.violations = []      # (key, what, replay_path)
        self.known_hits = {}      # key -> [count, what]
        self.drift = []
        self.cov = {"states": 0, "transitions": 0, "traces_validated_against_impl": 0, "samples": [],
                    "evaluations": 0, "distinct_nontrivial": 0, "rule": "", "tlc_runs": [],
                    "exhaustive": False, "replayed_cases": 0}
        self.assumptions = []
        self._nontrivial = set()
        self.notes = []

    # ---- coverage bookkeeping
    def add_tlc(self, res, what):
        self.cov["states"] += res.distinct_states
        self.cov["transitions"] += res.states_generated
        self.cov["tlc_runs"].append({"what": what, "cmd": res.cmd, "distinct_states": res.distinct_states,
                                      "states_generated": res.states_generated, "depth": res.depth,
                                      "exported": len(res.records), "wall_s": res.wall_s,
                                      "cached_export": bool(getattr(res, "cached", False)),
                                      "violated": res.violated})

    def sample(self, s, limit=6):
        if len(self.cov["samples"]) < limit:
            self.cov["samples"].append(s)

    def count(self, n_eval, nontrivial_keys=()):
        self.cov["evaluations"] += n_eval
        for k in nontrivial_keys:
            self._nontrivial.add(k)

    # ---- verdicts
    def violation(self, key, what, replay):
        """Report one violating case. `key` is the canonical cell for known-finding matching."""
        e = self.findings.known(self.prop, key)
        if e is not None:
            c = self.known_hits.setdefault(key, [0, e["what"]])
            c[0] += 1
            return False
        os.makedirs(os.path.join(ROOT, "replays"), exist_ok=True)
        path = os.path.join(ROOT, "replays", "%s_%d.json" % (self.prop, len(self.violations)))
        first_of_key = not any(k == key for k, _, _ in self.violations)
        if first_of_key and len({k for k, _, _ in self.violations}) < 80 or len(self.violations) < 10:
            json.dump({"property": self.prop, "key": key, "what": what, "replay": replay}, open(path, "w"),
                      indent=1, default=repr)
        self.violations.append((key, what, path))
        return True

    def finish(self):
        self.cov["distinct_nontrivial"] = len(self._nontrivial)
        wall = round(time.time() - self.t0, 2)
        for key, (n, what) in sorted(self.known_hits.items()):
            print("KNOWN-FINDING: property=%s %s [key=%s, %d case(s) this run]" % (self.prop, what, key, n))
        for d in self.drift[:10]:
            print("MODEL-DRIFT: property=%s %s" % (self.prop, d))
        per_key = {}
        shown = 0
        for key, what, path in self.violations:
            per_key[key] = per_key.get(key, 0) + 1
            if per_key[key] <= 1 and shown < 80:
                shown += 1
                print("VIOLATION property=%s replay=%s  # %s :: %s" % (self.prop, path, key, what))
        for key, n in per_key.items():
            if n > 1:
                print("  (... %d more violations with key %s)" % (n - 1, key))
        ev = {"property_id": self.prop, "tier": self.tier, "seed": self.seed, "level": self.level,
              "coverage": self.cov, "assumptions": self.assumptions, "wall_s": wall,
              "violations": len(self.violations),
              "known_findings_hit": {k: v[0] for k, v in self.known_hits.items()},
              "model_drift": self.drift[:20], "notes": self.notes}
        os.makedirs(os.path.join(ROOT, "evidence"), exist_ok=True)
        json.dump(ev, open(os.path.join(ROOT, "evidence", self.prop + ".json"), "w"), indent=1, default=repr)
        print("%s %s: states=%d replayed=%d traces=%d violations=%d known=%d wall=%.1fs" % (
            self.prop, self.tier, self.cov["states"], self.cov["replayed_cases"],
            self.cov["traces_validated_against_impl"], len(self.violations), len(self.known_hits), wall))
        return 1 if self.violations else 0


# ---------------------------------------------------------------- sharded execution
def _shard_entry(args):
    fn_mod, fn_name, chunk, extra = args
    try:
        mod = __import__(fn_mod, fromlist=[fn_name])
        fn = getattr(mod, fn_name)
        return ("ok", fn(chunk, extra))
    except BaseException:
        return ("err", traceback.format_exc())


def shard_map(fn_mod, fn_name, items, extra=None, procs=None, chunk=None, fresh=False):
    """Run `fn(chunk_of_items, extra)` in worker processes (spawned fresh so pedal state is isolated).

    Returns the concatenation of the lists returned by fn. A worker exception is a machinery error.
    """
    from .tlc import MachineryError
    procs = procs or min(16, os.cpu_count() or 4)
    items = list(items)
    if not items:
        return []
    if chunk is None:
        chunk = max(1, min(2000, (len(items) + procs * 4 - 1) // (procs * 4)))
    chunks = [items[i:i + chunk] for i in range(0, len(items), chunk)]
    ctx = mp.get_context("fork")
    out = []
    # fresh: every chunk gets a process of its own (process-wide state of the library must not carry over)
    with ctx.Pool(min(procs, len(chunks)), maxtasksperchild=1 if fresh else None) as pool:
        for status, val in pool.imap(_shard_entry, [(fn_mod, fn_name, c, extra) for c in chunks]):
            if status == "err":
                raise MachineryError("worker failed:\n" + val)
            out.extend(val)
    return out


def watchdog_map(fn_mod, fn_name, items, per_item_timeout, procs=4, extra=None):
    """Run fn([item], extra) in one forked child per item, killing children that exceed the timeout.

    Returns a list of (item, result_or_None, hung:bool).  Used where the property itself says the call must
    return (a hang is a verdict, not a machinery failure).  The parent stays SINGLE-THREADED: forking from a
    thread pool let children inherit module-import locks held by sibling threads and hang for reasons that have
    nothing to do with the code under test.
    """
    import time as _time
    from multiprocessing.connection import wait as _wait
    ctx = mp.get_context("fork")

    def target(conn, item):
        try:
            mod = __import__(fn_mod, fromlist=[fn_name])
            res = getattr(mod, fn_name)([item], extra)
            conn.send(("ok", res))
        except BaseException:
            conn.send(("err", traceback.format_exc()))
        finally:
            conn.close()
            os._exit(0)

    items = list(items)
    results = [None] * len(items)
    pending = list(range(len(items)))
    running = {}          # parent connection -> (index, process, deadline)
    retried = set()
    while pending or running:
        while pending and len(running) < procs:
            i = pending.pop(0)
            parent, child = ctx.Pipe(duplex=False)
            p = ctx.Process(target=target, args=(child, items[i]))
            p.start()
            child.close()
            running[parent] = (i, p, _time.time() + per_item_timeout)
        ready = _wait(list(running), timeout=0.2)
        now = _time.time()
        for conn in list(running):
            i, p, deadline = running[conn]
            if conn in ready:
                try:
                    status, val = conn.recv()
                except EOFError:
                    status, val = "err", "child died without a result"
                p.join(5)
                if p.is_alive():
                    p.kill()
                del running[conn]
                if status == "err" and val == "child died without a result" and i not in retried:
                    # (seen once with code under test that loses output of reused thread ids: the same item is tried
                    # again in a new child; dying twice is a machinery failure)
                    retried.add(i)
                    pending.append(i)
                    continue
                if status == "err":
                    for _, q, _ in running.values():
                        q.kill()
                    from .tlc import MachineryError
                    raise MachineryError("worker failed:\n" + str(val))
                results[i] = (items[i], val[0] if val else None, False)
            elif now > deadline:
                p.kill()
                p.join(5)
                del running[conn]
                results[i] = (items[i], None, True)
    return results
