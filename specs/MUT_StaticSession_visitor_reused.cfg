SPECIFICATION Spec
CONSTANTS
  Feats = {"type:str", "lit:5", "ast:For", "call:print", "op:+", "type:float"}
  MaxOcc = 1
  MaxLen = 3
  Flags = {"visitor_reused"}
INVARIANT HistoryIndependent
CHECK_DEADLOCK FALSE
