"""Binding of specs/TimeoutRace.tla to real threads (C14).

Free-running mode: execute a slow/non-terminating student program with threaded=True and project the
quiescent state.  Forced mode: with the guarded hooks in pedal (PEDAL_EDU_PEDAL_VERIF=1) a controller
parks each thread at its synchronisation points and releases them in the order a TLC behaviour dictates.
"""
import sys
import threading
import time

PROGRAMS = {
    "busy": "while True:\n    pass\n",
    "printer": "while True:\n    print('s')\n",
    "printer_sync": "while True:\n    print('s')\n    vsync('T:step')\n",
    "swallower": ("n = 0\nwhile not stop_flag[0]:\n    try:\n        while not stop_flag[0]:\n            n += 1\n"
                  "            if n % 50 == 0:\n                print('s')\n    except BaseException:\n        pass\n"),
    # (the short inner loop bounds the volume of output: an unthrottled print loop that cannot be stopped fills the
    # capture buffer at memory speed, and the grader thread then spends its time copying gigabytes)
    "swallower_loud": ("while not stop_flag[0]:\n    try:\n        while not stop_flag[0]:\n            print('s')\n"
                       "            for _ in range(3000):\n                pass\n"
                       "    except BaseException:\n        pass\n"),
    "blocked": "gate.acquire()\nprint('woke')\n",
    # (the statements after the import can only run if the exit injected into the imported file is lost on the way out)
    "importer": ("import helper_loop\nafter_import = 1\nwhile not stop_flag[0]:\n    print('s')\n"
                 "    for _ in range(3000):\n        pass\n"),
    # the clean-up clause fails while the thread unwinds from the injected exit
    "unwinder": "log = None\ntotal = 0\ntry:\n    while True:\n        total = total + 1\nfinally:\n    log.close()\n",
    "printer_slow": "while True:\n    print('s')\n    for i in range(20000):\n        pass\n",
    # a retry loop that catches Exception (not BaseException): the injected SystemExit must get through
    "catcher": ("n = 0\nwhile not stop_flag[0]:\n    try:\n        while not stop_flag[0]:\n            n += 1\n"
                "            if n % 50 == 0:\n                print('s')\n    except Exception:\n        pass\n"),
    "catcher_loud": ("while not stop_flag[0]:\n    try:\n        while not stop_flag[0]:\n            print('s')\n"
                     "            for _ in range(3000):\n                pass\n"
                     "    except Exception:\n        pass\n"),
    "finisher": "for i in range(FIN_N):\n    pass\nprint('s')\n",
    "finisher_sync": "print('s')\nvsync('T:step')\nprint('s')\nvsync('T:step')\n",
    "raiser_late": "for i in range(FIN_N):\n    pass\nraise ValueError('late')\n",
}


class Obs(dict):
    pass


def student_threads():
    return [t for t in threading.enumerate() if type(t).__name__ == "InterruptableThread"]


def run_kind(kind, allowed=0.08, fin_n=200000, controller=None):
    """One threaded execution of `kind`, then a later unthreaded run; returns the projection."""
    from pedal.core.report import Report
    from pedal.core.submission import Submission
    import pedal.sandbox  # noqa
    from pedal.sandbox import commands as C
    orig_out, orig_sleep = sys.stdout, time.sleep
    report = Report()
    # suffix _tn: the LATER execution is threaded too (and, for a blocked student, releases the lock it waits for)
    # suffix _nat: the sandbox traces with the native tracer (what the GradeScope environment installs)
    full_kind = kind
    native = kind.endswith("_nat")
    covered = kind.endswith("_cov")         # ... or with the coverage tracer
    if native or covered:
        kind = kind[:-4]
    next_threaded = kind.endswith("_tn")
    base = kind[:-3] if next_threaded else kind
    src = PROGRAMS[base]
    files = {"answer.py": src}
    if base == "importer":
        # the non-terminating code sits in a SECOND student file, reached through import while the sandbox is threaded
        files["helper_loop.py"] = PROGRAMS["printer_slow"]
    report.contextualize(Submission(files=files, main_file="answer.py", main_code=src))
    sb = report["sandbox"]["sandbox"]
    sb.allowed_time = allowed
    if base == "importer":
        sb.threaded = True
    if native:
        sb.tracer_style = "native"
    if covered:
        sb.tracer_style = "coverage"
    gate = threading.Lock()
    gate.acquire()
    stop_flag = [False]
    sb.data["gate"] = gate
    sb.data["stop_flag"] = stop_flag
    sb.data["FIN_N"] = fin_n
    if controller is not None:
        sb.data["vsync"] = controller.student_sync
    before_threads = set(student_threads())
    o = Obs(kind=full_kind, allowed=allowed)
    t0 = time.time()
    try:
        C.run(report=report, threaded=True)
        o["status"] = "returned"
    except BaseException as e:
        o["status"] = "raised:%s" % type(e).__name__
    o["elapsed"] = round(time.time() - t0, 3)
    exc = sb.exception
    o["exc_at_return"] = type(exc).__name__ if exc is not None else "none"
    o["timed_out"] = o["elapsed"] >= allowed * 0.9 and (exc is not None and isinstance(exc, (TimeoutError, SystemExit)) or o["elapsed"] >= allowed)
    mine = [t for t in student_threads() if t not in before_threads]
    o["n_contexts_at_return"] = len(sb._context)
    # ---- a later, unthreaded run on the same sandbox, possibly while the abandoned thread is still alive
    if controller is not None:
        controller.before_next_run()
    try:
        # (for the loud swallower the later run is long enough for the zombie thread to be scheduled)
        nxt = "for i in range(400000):\n    pass\nprint('n')" if base in ("swallower_loud", "catcher_loud", "importer") else "print('n')"
        if next_threaded:
            # long enough for the abandoned thread to be scheduled and die while this execution is under way
            nxt = ("gate.release()\n" if base == "blocked" else "") + "for i in range(300000):\n    pass\nprint('n')"
            sb.allowed_time = 5.0
        traced_before = len(getattr(sb.trace, "lines", ())) if native else None
        if covered:
            sb.trace.pc_covered = None
        sb.run(nxt, filename="answer.py", threaded=next_threaded)
        o["next_status"] = "returned"
        # what the tracer knows about the later execution (its lines / its coverage figure)
        if native:
            o["next_traced"] = len(sb.trace.lines) > traced_before
        if covered:
            o["next_traced"] = sb.trace.pc_covered is not None
    except BaseException as e:
        o["next_status"] = "raised:%s" % type(e).__name__
    o["next_exc"] = type(sb.exception).__name__ if sb.exception is not None else "none"
    o["next_output"] = sb._context[-1].output if sb._context else None
    if o["next_output"] and len(o["next_output"]) > 40:
        o["next_output"] = o["next_output"][:20] + "...(%d chars)" % len(o["next_output"])
    # ---- let the abandoned thread die (it can not, for the swallower, until we tell it to stop)
    if controller is not None:
        controller.release_all()
    if base != "blocked":
        stop_flag[0] = True
        gate.release()
    deadline = time.time() + 2.0
    for t in mine:
        t.join(max(0.0, deadline - time.time()))
    o["thread_alive_at_quiescence"] = any(t.is_alive() for t in mine)
    # ---- quiescent projection
    rfb = [f for f in report.feedback if f.category == "runtime"]
    first_exec = [f for f in rfb if "print('n')" not in str(getattr(f.fields.get("context", [[None]])[0][-1] if f.fields.get("context") else None, "code", ""))]
    o["runtime_fbs"] = [type(f.fields.get("exception")).__name__ for f in rfb]
    o["exc_quiescent"] = type(sb.exception).__name__ if sb.exception is not None else "none"
    # names bound by statements that lie BEHIND the code that never ends: the namespace later calls start from
    o["ran_past_endless"] = "after_import" in sb.data
    o["patches"] = len(sb._current_patches)
    o["stdouts"] = len(sb._current_stdout)
    o["pOut"] = "real" if sys.stdout is orig_out else "patched"
    o["pSleep"] = "real" if time.sleep is orig_sleep else "patched"
    # cleanup whatever is left so the next case starts clean
    if kind == "blocked":
        stop_flag[0] = True
        gate.release()
        for t in mine:
            t.join(1.0)
        o["blocked_thread_alive_after_release"] = any(t.is_alive() for t in mine)
    elif base == "blocked":
        stop_flag[0] = True
    while sb._current_patches:
        sb._stop_patches()
    sys.stdout, time.sleep = orig_out, orig_sleep
    return o


def judge(o, bound_extra=2.0):
    """Contract of C14 on one observation; returns the list of violated clauses."""
    bad = []
    if not o["status"] == "returned":
        bad.append("Returns")
    if o["elapsed"] > o["allowed"] + bound_extra:
        bad.append("Bounded")
    # programs that never end by themselves exceed the limit by construction, whatever the call then reports
    never_ends = o["kind"].split("_")[0] in ("busy", "printer", "swallower", "blocked", "catcher", "importer", "unwinder")
    timed_out = never_ends or o["exc_at_return"] in ("TimeoutError", "SystemExit") or o["elapsed"] >= o["allowed"] + 0.5
    o["judged_timed_out"] = timed_out
    if timed_out:
        if o["exc_at_return"] != "TimeoutError":
            bad.append("ExcIsTimeout")
        if o["runtime_fbs"] != ["TimeoutError"]:
            bad.append("OneRuntimeFb")
    if o["patches"] or o["stdouts"] or o["pOut"] != "real" or o["pSleep"] != "real":
        bad.append("StacksEmpty")
    if o["next_status"] != "returned" or o["next_exc"] != "none" or o["next_output"] != "n\n":
        bad.append("NextRunClean")
    if o.get("next_traced") is False:
        bad.append("NextRunClean:trace")
    if o.get("ran_past_endless"):
        bad.append("NextRunClean:namespace")
    # an abandoned thread that can be interrupted (everything but a swallower, or a thread still blocked on its lock)
    # must be dead once things are quiet: a thread that keeps running keeps altering later executions
    if "thread_alive_at_quiescence" in o and o["kind"].split("_")[0] not in ("swallower",) and o["kind"] not in ("blocked", "blocked_nat", "blocked_cov") \
            and o["thread_alive_at_quiescence"]:
        bad.append("AbandonedThreadDies")
    return bad


def free_chunk(cases, extra):
    import os
    from engine.core import setup_repo_path
    setup_repo_path()
    sys.stdout = open(os.devnull, "w")     # zombie threads print to the worker's real stdout; results travel by pipe
    out = []
    import tempfile
    import shutil
    home = os.getcwd()
    for kind, allowed, fin_n in cases:
        # coverage.py keeps its data file in the current directory: every measured case gets a directory of its own
        scratch = tempfile.mkdtemp(prefix="vp_c14_") if kind.endswith("_cov") else None
        if scratch:
            os.chdir(scratch)
        try:
            o = run_kind(kind, allowed, fin_n)
        finally:
            if scratch:
                os.chdir(home)
                shutil.rmtree(scratch, ignore_errors=True)
        o["violated"] = judge(o)
        out.append(dict(o))
    return out


# ------------------------------------------------------------------ forced schedules
class Controller:
    """Parks threads at synchronisation points and releases them in the order of `schedule`.

    Under forcing only one thread runs between two points (the other is parked), which is what makes the
    coarse, hook-level schedules of TimeoutRace.tla replayable.  A thread parked at a point is released
    when the head of the schedule names that point; a student thread parked at 'T:step' is also released
    (without consuming anything) when the head is 'T:exit', because the pending asynchronous SystemExit is
    delivered as soon as it resumes.
    """

    def __init__(self, schedule, patience=4.0):
        self.schedule = list(schedule)
        self.lock = threading.Lock()
        self.parked = {}            # role -> (point, Event)
        self.log = []
        self.patience = patience
        self.unrealizable = None
        self.grader_waits = False
        self.done = False

    def _role(self, point):
        return point.split(":")[0]

    def _pump(self):
        """Release whoever is entitled to run now. Call with self.lock held."""
        if self.done:
            for role, (pt, ev) in list(self.parked.items()):
                ev.set()
            self.parked.clear()
            return
        if not self.schedule:
            return
        head = self.schedule[0]
        role = self._role(head)
        if role in self.parked:
            pt, ev = self.parked[role]
            if pt == head:
                self.schedule.pop(0)
                self.log.append(head)
                del self.parked[role]
                ev.set()
            elif role == "T" and pt == "T:step" and head == "T:exit":
                del self.parked[role]
                ev.set()

    def sync(self, point):
        ev = threading.Event()
        with self.lock:
            self.parked[self._role(point)] = (point, ev)
            self._pump()
        if not ev.wait(self.patience):
            with self.lock:
                if not ev.is_set():
                    self.unrealizable = "thread parked at %s was never scheduled (head=%s)" % (
                        point, self.schedule[:1])
                    if point == "T:exit" and self.schedule[:1] == ["M:terminated"]:
                        # the student thread has been told to exit and is dying, yet the grader never got past
                        # terminate(): it is waiting on the student thread
                        self.grader_waits = True
                    self.done = True
                    self._pump()
        with self.lock:
            self._pump()

    student_sync = sync

    def before_next_run(self):
        self.sync("M:returned")

    def release_all(self):
        with self.lock:
            self.done = True
            self._pump()


def forced_case(kind, sched, expect, allowed=0.25):
    from pedal.utilities import verif_hooks
    ctl = Controller(sched)
    verif_hooks.install(sync=ctl.sync)
    try:
        o = run_kind_forced(kind, allowed, ctl)
    finally:
        verif_hooks.install()
        ctl.release_all()
    o["schedule"] = list(sched)
    o["passed"] = ctl.log
    o["grader_waits"] = ctl.grader_waits
    o["unrealizable"] = ctl.unrealizable or (None if not ctl.schedule else "schedule not consumed: %s left" % ctl.schedule)
    return o


FORCED_PROGRAMS = {"busy": "busy", "printer": "printer_fsync", "finisher": "finisher_fsync", "blocked": "blocked"}
PROGRAMS["printer_fsync"] = "while True:\n    vsync('T:step')\n    print('s')\n"
PROGRAMS["finisher_fsync"] = "vsync('T:step')\nprint('s')\nvsync('T:step')\nprint('s')\n"
NEXT_PROGRAM = "vsync('M:nextprint')\nprint('n')\n"


def run_kind_forced(kind, allowed, ctl):
    from pedal.core.report import Report
    from pedal.core.submission import Submission
    import pedal.sandbox  # noqa
    from pedal.sandbox import commands as C
    orig_out, orig_sleep = sys.stdout, time.sleep
    report = Report()
    report.contextualize(Submission(files={"answer.py": PROGRAMS[FORCED_PROGRAMS[kind]]}))
    sb = report["sandbox"]["sandbox"]
    sb.allowed_time = allowed
    gate = threading.Lock()
    gate.acquire()
    sb.data["gate"] = gate
    sb.data["vsync"] = ctl.sync
    before = set(student_threads())
    o = Obs(kind=kind, allowed=allowed)
    t0 = time.time()
    try:
        C.run(report=report, threaded=True)
        o["status"] = "returned"
    except BaseException as e:
        o["status"] = "raised:%s" % type(e).__name__
    o["elapsed"] = round(time.time() - t0, 3)
    o["exc_at_return"] = type(sb.exception).__name__ if sb.exception is not None else "none"
    mine = [t for t in student_threads() if t not in before]
    ctl.before_next_run()
    try:
        sb.run(NEXT_PROGRAM, filename="answer.py", threaded=False)
        o["next_status"] = "returned"
    except BaseException as e:
        o["next_status"] = "raised:%s" % type(e).__name__
    o["next_exc"] = type(sb.exception).__name__ if sb.exception is not None else "none"
    o["next_output"] = sb._context[-1].output if sb._context else None
    o["first_share"] = sb._context[0].output if sb._context else None
    # drain the rest of the schedule (the student thread may still have to die)
    deadline = time.time() + 3.0
    while time.time() < deadline:
        with ctl.lock:
            ctl._pump()
            if not ctl.schedule or ctl.done:
                break
        time.sleep(0.005)
    if kind == "blocked":
        o["thread_alive_at_quiescence"] = any(t.is_alive() for t in mine)
        gate.release()
    ctl.release_all()
    for t in mine:
        t.join(2.0)
    if kind != "blocked":
        o["thread_alive_at_quiescence"] = any(t.is_alive() for t in mine)
    rfb = [f for f in report.feedback if f.category == "runtime"]
    o["runtime_fbs"] = [type(f.fields.get("exception")).__name__ for f in rfb]
    # names bound by statements that lie BEHIND the code that never ends: the namespace later calls start from
    o["ran_past_endless"] = "after_import" in sb.data
    o["patches"] = len(sb._current_patches)
    o["stdouts"] = len(sb._current_stdout)
    o["pOut"] = "real" if sys.stdout is orig_out else "patched"
    o["pSleep"] = "real" if time.sleep is orig_sleep else "patched"
    while sb._current_patches:
        sb._stop_patches()
    sys.stdout, time.sleep = orig_out, orig_sleep
    return o


def forced_chunk(cases, extra):
    from engine.core import setup_repo_path
    setup_repo_path()
    out = []
    for kind, rec in cases:
        o = forced_case(kind, rec["sched"], rec)
        bad = judge(o)
        # agreement with the specification's quiescent state for this schedule
        if not o["unrealizable"]:
            want_exc = {"timeout": "TimeoutError", "none": "none"}.get(rec["exc"], rec["exc"])
            if o["exc_at_return"] != want_exc:
                bad.append("SpecExc(%s)" % want_exc)
            want_fbs = ["TimeoutError" if x == "timeout" else x for x in rec["fbs"]]
            if o["runtime_fbs"] != want_fbs:
                bad.append("SpecFbs")
            want_share = "".join(x + "\n" for x in rec["share"])
            if o["first_share"] != want_share:
                bad.append("SpecShare(%r)" % want_share)
        elif o["grader_waits"]:
            bad = ["GraderWaitsOnStudent"]
        else:
            bad = []
        o["violated"] = sorted(set(bad))
        out.append(dict(o))
    return out
