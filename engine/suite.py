"""Run the repository's own test-suite with the guard on and the recorder plugin; return the recorded traces."""
import json
import os
import subprocess

from .core import ROOT, REPO
from .tlc import MachineryError


def record_suite():
    os.makedirs(os.path.join(ROOT, "build"), exist_ok=True)
    out = os.path.join(ROOT, "build", "suite_traces.%d.json" % os.getpid())
    env = dict(os.environ, PEDAL_EDU_PEDAL_VERIF="1", PYTHONPATH=ROOT, VERIF_SUITE_TRACES=out, PYTHONHASHSEED="0")
    p = subprocess.run(["/venv/bin/python", "-m", "pytest", "-q", "-p", "no:cacheprovider", "-p", "bind.suite_plugin"],
                       cwd=REPO, env=env, stdout=subprocess.PIPE, stderr=subprocess.STDOUT, text=True, timeout=900)
    try:
        if not os.path.exists(out):
            raise MachineryError("test-suite recorder produced no traces:\n" + p.stdout[-1500:])
        t = json.load(open(out))
    finally:
        try:
            os.remove(out)
        except OSError:
            pass
    if t.get("errors"):
        raise MachineryError("recorder errors: %s" % t["errors"][:3])
    return t
