SPECIFICATION Spec
CONSTANTS
  MaxSteps = 3
INVARIANT OriginalBindingIsAWitness
PROPERTY Monotone
CONSTRAINT Export
CHECK_DEADLOCK FALSE
