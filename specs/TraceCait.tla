------------------------------ MODULE TraceCait ------------------------------
(* Batch validation of witnesses logged from real find_matches against IsEmbedding. *)
EXTENDS CaitMatch, Json, IOUtils, TLCExt
Traces == JsonDeserialize(IOEnv.TRACE_FILE)
NT == Len(Traces)
VARIABLES tid, l
tvars == <<tid, l>>
ASSUME \A i \in 1..(2 * NT) : TLCSet(i, 0)
W == Traces[tid]
M(w) == {<<w.m[i][1], w.m[i][2]>> : i \in 1..Len(w.m)}
TInit == tid \in 1..NT /\ l = 1
TCheck == /\ l = 1 /\ IsEmbedding(W.P, W.S, M(W), W.sym, W.exps) /\ l' = 2 /\ UNCHANGED tid
TSpec == TInit /\ [][TCheck]_tvars
Progress == IF l > TLCGet(tid) THEN TLCSet(tid, l) /\ TLCSet(NT + tid, IF l = 1 THEN FailMask(W.P, W.S, M(W), W.sym, W.exps) ELSE 0) ELSE TRUE
Post == LET rej == {i \in 1..NT : TLCGet(i) < 2} IN
        /\ PrintT(<<"ACCEPTED", NT - Cardinality(rej)>>)
        /\ \A i \in rej : PrintT(<<"REJECTED", i, TLCGet(i), ToString(TLCGet(NT + i))>>)
=============================================================================
