"""C08: static ensure_/prevent_ checks against specs/StaticChecks.tla."""
import json

from engine import tlc
from engine.core import shard_map
from engine.tlc import MachineryError


def fam(feature):
    kind, _, name = feature.partition(":")
    return kind


def run(prop, tier, seed, ctx):
    ctx.assumptions += ["oracle for occurrences = a plain walk of CPython's own syntax tree (operator symbols only in "
                        "BinOp/BoolOp/UnaryOp/Compare positions, literals by exact type and value) logged next to pedal's answer",
                        "import checks at their documented default thresholds only; unary +/- are not documented symbols"]
    ctx.cov["rule"] = ("cases = (feature, count, threshold, polarity, placement) cells concretised into programs with "
                       "distractors, plus (corpus file, feature) traces over the repository's own Python files; "
                       "non-trivial = count >= 1; distinct = distinct cell / distinct (file, feature)")
    cfg = "MC_Static_q.cfg" if tier == "quick" else "MC_Static_t.cfg"
    res = tlc.run("MC_Static", cfg, workers=8, timeout=600)
    tlc.require_ok(res, cfg)
    ctx.add_tlc(res, "threshold law over all cells " + cfg)
    cases = list(enumerate(res.records))
    mism = shard_map("bind.static", "replay_chunk", cases)
    ctx.cov["replayed_cases"] += len(cases)
    ctx.count(len(cases), (json.dumps(r["q"], sort_keys=True) for _, r in cases if r["q"]["count"] >= 1))
    ctx.sample({"kind": "cell", "q": res.records[len(res.records) // 2]["q"]})
    ctx.cov["exhaustive"] = True
    for m in mism:
        q = m["q"]
        if m["kind"] == "environment":
            raise MachineryError("environment model wrong: %s for %s\n%s" % (m["detail"], q, m["source"]))
        ctx.violation("C08|%s|%s|%s" % (m["kind"], q["f"], q["pol"] if m["kind"] != "found" else "-"),
                      "%s(%s, %d) on a program with %d occurrence(s) [%s]: %s observed %s expected %s  ::  %s" % (
                          q["pol"], q["f"], q["thr"], q["count"], q["place"], m["kind"], m.get("observed", m.get("detail")),
                          m.get("expected"), m["source"].strip().replace("\n", " / ")[:200]), m)
    # ---- corpus traces validated by TLC
    from bind.static import corpus_files
    files = corpus_files()
    if tier == "quick":
        files = files[seed % 4::4]
    traces = shard_map("bind.static", "record_chunk", files, chunk=4)
    if len(traces) < 50:
        raise MachineryError("corpus too small: %d traces" % len(traces))
    acc, rej, tres = tlc.validate_traces("TraceStatic", "TraceStatic.cfg", [t["events"] for t in traces], timeout=1200)
    ctx.add_tlc(tres, "trace validation of %d (file, feature) observations" % len(traces))
    ctx.cov["traces_validated_against_impl"] += len(traces)
    ctx.count(len(traces), ("trace:%s:%s" % (t["file"], t["feature"]) for t in traces if any(e.get("count") for e in t["events"])))
    ctx.sample({"kind": "corpus trace", "file": traces[0]["file"], "feature": traces[0]["feature"], "events": traces[0]["events"][:2]})
    names = {"1": "found", "2": "fires", "3": "line"}
    for tid, pos, clause in rej:
        t = traces[tid - 1]
        ctx.violation("C08|%s|%s|corpus" % (names.get(str(clause), "error"), t["feature"]),
                      "corpus file %s, feature %s: event %d rejected (%s): %s %s" % (
                          t["file"], t["feature"], pos, names.get(str(clause), clause), json.dumps(t["events"][pos - 1])[:200], t.get("error", "")), t)
    # ---- sessions: several queries against ONE parsed root (history independence, specs/StaticSession.tla)
    scfg = "MC_StaticSession_q.cfg" if tier == "quick" else "MC_StaticSession_t.cfg"
    sres = tlc.run("StaticSession", scfg, workers=8, timeout=600)
    tlc.require_ok(sres, scfg)
    ctx.add_tlc(sres, "query sessions on one root: HistoryIndependent, NothingSurvives " + scfg)
    scases = list(enumerate(sres.records))
    # ... plus deep random sessions (tlc -simulate): eight queries over ten independent features and both pseudo-queries
    num = 150 if tier == "quick" else 4000
    simres = tlc.run("StaticSession", "SIM_StaticSession_deep.cfg", workers=4, timeout=600, simulate="num=%d" % num, extra=["-depth", "10", "-seed", str(1000 + seed)])
    tlc.require_ok(simres, "simulation SIM_StaticSession_deep.cfg")
    ctx.add_tlc(simres, "simulation (%d sessions of 8 queries) SIM_StaticSession_deep.cfg" % (4 * num))
    simrecs = list({json.dumps(r, sort_keys=True): r for r in simres.records}.values())
    if len(simrecs) < num:
        raise MachineryError("simulation exported only %d sessions" % len(simrecs))
    scases += list(enumerate(simrecs))
    smism = shard_map("bind.static", "session_replay_chunk", scases)
    ctx.cov["replayed_cases"] += len(scases)
    ctx.count(len(scases), ("session:" + json.dumps(r, sort_keys=True) for _, r in scases if len({h["f"] for h in r["hist"]}) > 1))
    for m in smism:
        if m["kind"] == "environment":
            raise MachineryError("session environment model wrong: %s\n%s" % (m["detail"], m["source"]))
        ctx.violation("C08|session|%s|after-%s" % (fam(m["f"]), "+".join(sorted({fam(x) for x in m.get("earlier", [])})) or "nothing"),
                      "query %s as step %d of a session on one report (earlier: %s): found %s, thresholds imply %s, syntax tree has %s  ::  %s" % (
                          m["f"], m["step"], m.get("earlier"), m.get("found", m.get("detail")), m.get("pinned"), m.get("expected"),
                          m["source"].strip().replace("\n", " / ")[:200]), m)
    straces = shard_map("bind.static", "session_record_chunk", files, extra=seed, chunk=4)
    acc_s, rej_s, tres_s = tlc.validate_traces("TraceStatic", "TraceStatic.cfg", [t["events"] for t in straces], timeout=1200)
    ctx.add_tlc(tres_s, "trace validation of %d corpus sessions (all features on one report, shuffled order)" % len(straces))
    ctx.cov["traces_validated_against_impl"] += len(straces)
    ctx.count(len(straces), ("session-trace:%s" % t["file"] for t in straces))
    for tid, pos, clause in rej_s:
        t = straces[tid - 1]
        evn = t["events"][pos - 1]
        ctx.violation("C08|%s|session|corpus" % names.get(str(clause), "error"),
                      "corpus session on %s: event %d (%s) rejected (%s): %s %s" % (
                          t["file"], pos, evn.get("f"), names.get(str(clause), clause), json.dumps(evn)[:200], t.get("error") or ""), t)
    for mcfg in ("MUT_StaticSession_visitor_reused.cfg", "MUT_StaticSession_stale_failure.cfg", "MUT_StaticSession_steals_foreign_tree.cfg"):
        mres2 = tlc.run("StaticSession", mcfg, workers=2, timeout=300)
        if "HistoryIndependent" not in mres2.violated:
            raise MachineryError("mutant %s did not violate HistoryIndependent" % mcfg)
    ctx.notes.append("self-test: a visitor reused across queries violates HistoryIndependent")
    # sessions of EVERY length: the ghost `wrong` replaces the history, and with the rest of the state as TLC's VIEW the
    # reachable set is finite
    ures = tlc.run("StaticSession", "MC_StaticSession_unbounded.cfg", workers=4, timeout=600)
    tlc.require_ok(ures, "MC_StaticSession_unbounded.cfg")
    ctx.add_tlc(ures, "NeverWrong / NothingSurvives for sessions of unbounded length (VIEW StateView)")
    umut = tlc.run("StaticSession", "MUT_StaticSession_unbounded_steals.cfg", workers=2, timeout=300)
    if "NeverWrong" not in umut.violated:
        raise MachineryError("mutant unbounded_steals did not violate NeverWrong")
    mres = tlc.run("MC_Static", "MUT_Static_bad_table_rows.cfg", workers=2, timeout=300)
    if "ThresholdLaw" not in mres.violated:
        raise MachineryError("mutant bad_table_rows did not violate ThresholdLaw")
    ctx.notes.append("self-test: a symbol table with wrong rows violates ThresholdLaw")


def replay(prop, rep):
    from bind import static as B
    from engine.core import setup_repo_path
    setup_repo_path()
    r = rep["replay"]
    if "case" in r:
        out = B.session_replay_chunk([(0, r["case"])], None)
        print(json.dumps(out, indent=1, default=repr)[:2000])
        return 1 if out else 0
    if "q" in r:
        out = B.replay_chunk([(0, {"q": r["q"], "fires": "yes" if r.get("expected") else "no"})], None)
        print(json.dumps(out, indent=1, default=repr)[:2000])
        return 1 if out else 0
    print(json.dumps(r, indent=1)[:2000])
    return 1
