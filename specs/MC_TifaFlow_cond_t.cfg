SPECIFICATION Spec
CONSTANTS
  Vars = {"x", "c"}
  MaxTok = 6
  MaxDepth = 2
  Types = {"i"}
  CondVars = {"c", "x"}
  Copies = TRUE
  Flags = {}
INVARIANT ReadsExact
INVARIANT UnusedExact
CONSTRAINT Export
CHECK_DEADLOCK FALSE
