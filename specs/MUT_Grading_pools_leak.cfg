SPECIFICATION Spec
CONSTANTS
  Scripts <- QuickScripts
  Subs = {"ok", "crash", "mathy", "mathmut"}
  MaxLen = 2
  ClearResets <- PinnedClearResets
  Writes <- W
  Reads <- R
INVARIANT PristineAtStart
CHECK_DEADLOCK FALSE
