---------------------------- MODULE MC_Resolver ----------------------------
EXTENDS Resolver
S(k, c, l, f) == [k |-> k, cat |-> c, label |-> l, fld |-> f]
SuppNone == <<>>
SuppBasic == << S("cat", "runtime", "-", "-"), S("catlabel", "runtime", "a", "-"),
                S("catlabelf", "runtime", "a", "f1"), S("label", "-", "a", "-"),
                S("labelf", "-", "b", "f1"), S("cat", "syntax", "-", "-"),
                S("catlabel", "syntax", "b", "-"), S("labelf", "-", "a", "f2"),
                S("catlabelf", "runtime", "b", "j1"), S("labelf", "-", "b", "k2"),
                S("catf", "runtime", "-", "k2"), S("catf", "runtime", "-", "f1"),
                \* a label written with a capital letter: label-only suppressions compare it exactly, category-scoped ones lower-cased
                S("label", "-", "B", "-"), S("catlabel", "runtime", "B", "-"), S("labelf", "-", "B", "f1"), S("catlabel", "runtime", "b", "-") >>
\* the SAME label suppressed more than once, with different field sets (each registration counts)
SuppTwice == << S("labelf", "-", "a", "f1"), S("labelf", "-", "a", "f2"), S("labelf", "-", "a", "j1"), S("label", "-", "b", "-"),
               S("catlabelf", "runtime", "a", "f1"), S("catlabelf", "runtime", "a", "f2") >>
\* suppressions that name a category by its alias or by its canonical name
SuppAlias == << S("cat", "parser", "-", "-"), S("cat", "syntax", "-", "-"), S("catlabel", "parser", "a", "-"), S("catf", "parser", "-", "f1") >>
\* a whole category narrowed by fields, registered BEFORE suppressions of single labels of the same category
SuppCatF == << S("catf", "runtime", "-", "k2"), S("catf", "runtime", "-", "f1"), S("catlabel", "runtime", "a", "-"),
              S("catlabelf", "runtime", "b", "f1"), S("cat", "runtime", "-", "-"), S("label", "-", "a", "-") >>
SuppScore == << S("cat", "runtime", "-", "-"), S("label", "-", "a", "-") >>
AllCats == {"syntax", "mistakes", "instructor", "algorithmic", "runtime", "student", "specification",
            "positive", "instructions", "uncategorized", "style", "system", "complete"}
AllPrios == {"none", "high", "medium", "low", "highest", "lowest", "syntax", "runtime", "student",
             "positive", "parser", "analyzer"}
=============================================================================
