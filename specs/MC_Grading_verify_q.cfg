SPECIFICATION Spec
CONSTANTS
  Scripts = {"plain", "verify_native"}
  Subs = {"ok", "syntax"}
  MaxLen = 3
  ClearResets <- CodeClearResets
  Writes <- W
  Reads <- R
  SubWrites <- SW
  SubReads <- SR
INVARIANT PristineAtStart
CONSTRAINT Export
CHECK_DEADLOCK FALSE
