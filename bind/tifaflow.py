"""Binding of specs/TifaFlow.tla: render token programs to Python, analyse with real TIFA, compare with ground truth."""


def render(prog, elif_style=False):
    """-> (source, {token ordinal -> line number})"""
    lines = []
    where = {}
    depth = 0
    for k, tok in enumerate(prog, 1):
        t = tok["t"]
        ind = "    " * depth
        if t == "A":
            lines.append(ind + "%s = %s" % (tok["v"], "1" if tok["w"] == "i" else "'a'"))
        elif t == "R":
            lines.append(ind + "print(%s)" % tok["v"])
        elif t == "C":
            lines.append(ind + "%s = %s" % (tok["v"], tok["w"]))
        elif t == "I":
            lines.append(ind + ("if input():" if tok["v"] == "-" else "if %s:" % tok["v"]))
            depth += 1
        elif t == "E":
            lines.append("    " * (depth - 1) + "else:")
        elif t == "X":
            depth -= 1
            continue
        where[k] = len(lines)
    return "\n".join(lines) + "\n", where


def analyse(src):
    from pedal.core.report import MAIN_REPORT
    from pedal.core.commands import clear_report, contextualize_report
    from pedal.tifa import tifa_analysis
    clear_report()
    contextualize_report(src)
    res = tifa_analysis()
    out = {"success": bool(res.success), "error": repr(res.error) if not res.success else None, "issues": {}}
    for label, items in res.issues.items():
        for fb in items:
            out["issues"].setdefault(label, []).append((fb.fields.get("name"), fb.location.line if fb.location else None))
    return out


INIT_LABELS = ("initialization_problem", "read_out_of_scope")


def verdict_at(an, name, line):
    if any((name, line) == x for lab in INIT_LABELS for x in an["issues"].get(lab, [])):
        return "init"
    if any((name, line) == x for x in an["issues"].get("possible_initialization_problem", [])):
        return "possible"
    return "none"


def replay_chunk(cases, extra):
    from engine.core import setup_repo_path
    setup_repo_path()
    out = []
    for idx, rec in cases:
        src, where = render(rec["prog"])
        try:
            an = analyse(src)
        except Exception as e:
            out.append({"prog": rec["prog"], "source": src, "kind": "raised", "detail": "%s: %s" % (type(e).__name__, e)})
            continue
        if not an["success"]:
            out.append({"prog": rec["prog"], "source": src, "kind": "analysis-failed", "detail": an["error"]})
            continue
        for rd in rec["reads"]:
            line = where[rd["tok"]]
            got = verdict_at(an, rd["v"], line)
            if got != rd["verdict"]:
                out.append({"prog": rec["prog"], "source": src, "kind": "read", "name": rd["v"], "line": line,
                            "expected": rd["verdict"], "observed": got})
        unused = {n for n, _ in an["issues"].get("unused_variable", [])}
        for v, want in rec["unused"].items():
            if want == "must" and v not in unused:
                out.append({"prog": rec["prog"], "source": src, "kind": "unused", "name": v, "expected": "reported", "observed": "silent"})
            if want == "mustnot" and v in unused:
                out.append({"prog": rec["prog"], "source": src, "kind": "unused", "name": v, "expected": "silent", "observed": "reported"})
    return out


# ------------------------------------------------------------------ loops and calls (specs/TifaLoops.tla)
LOOP_HEAD = {"while": "while input():", "forE": "for i in []:", "forN": "for i in [1, 2]:", "forU": "for i in xs:"}


def render_loops(prog):
    lines = []
    where = {}
    depth = 0
    uses_xs = any(t["t"] == "L" and t["w"] == "forU" for t in prog)
    if uses_xs:
        lines.append("xs = input().split()")
    for k, tok in enumerate(prog, 1):
        t = tok["t"]
        ind = "    " * depth
        if t == "A":
            lines.append(ind + "%s = 1" % tok["v"])
        elif t == "R":
            lines.append(ind + "print(%s)" % tok["v"])
        elif t == "I":
            lines.append(ind + "if input():")
            depth += 1
        elif t == "E":
            lines.append("    " * (depth - 1) + "else:")
        elif t == "L":
            lines.append(ind + LOOP_HEAD[tok["w"]])
            depth += 1
        elif t == "D":
            lines.append(ind + "def f():")
            depth += 1
        elif t == "K":
            lines.append(ind + "f()")
        elif t == "X":
            depth -= 1
            continue
        where[k] = len(lines)
    return "\n".join(lines) + "\n", where


def loops_chunk(cases, extra):
    from engine.core import setup_repo_path
    setup_repo_path()
    out = []
    for idx, rec in cases:
        src, where = render_loops(rec["prog"])
        try:
            an = analyse(src)
        except Exception as e:
            out.append({"prog": rec["prog"], "source": src, "kind": "raised", "detail": "%s: %s" % (type(e).__name__, e)})
            continue
        if not an["success"]:
            out.append({"prog": rec["prog"], "source": src, "kind": "analysis-failed", "detail": an["error"]})
            continue
        seen = set()
        for rd in rec["reads"]:
            if not rd["must"]:
                continue
            line = where[rd["tok"]]
            if (rd["v"], line) in seen:
                continue
            seen.add((rd["v"], line))
            if verdict_at(an, rd["v"], line) == "none":
                # which construct encloses / precedes the read?  (for the known-finding key)
                ctxs = sorted({t["w"] for t in rec["prog"] if t["t"] == "L"} | ({"call"} if any(t["t"] == "K" for t in rec["prog"]) else set()))
                out.append({"prog": rec["prog"], "source": src, "kind": "missed", "name": rd["v"], "line": line,
                            "constructs": ctxs, "shape": classify_missed(rec["prog"], rd)})
    return out


def classify_missed(prog, rd):
    """Canonical cell of a missed read, decided CAUSALLY: the same program with every `for` loop replaced by an `if` on
    an opaque condition is analysed again; when TIFA does report the read there, the miss is due to its treatment of
    `for` bodies as always executed (the recorded design choice) -> 'assigned-inside-for-body'; otherwise 'other'."""
    if not any(t["t"] == "L" and t.get("w") in ("forE", "forU", "forN") for t in prog):
        return "other"
    as_ifs = [({"t": "I"} if (t["t"] == "L" and t.get("w") in ("forE", "forU", "forN")) else t) for t in prog]
    try:
        src, where = render_loops(as_ifs)
        an = analyse(src)
        if an["success"] and verdict_at(an, rd["v"], where[rd["tok"]]) != "none":
            return "assigned-inside-for-body"
    except Exception:
        pass
    return "other"
