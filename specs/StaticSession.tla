--------------------------- MODULE StaticSession ---------------------------
(***************************************************************************)
(* A SESSION of static queries against one parsed program (C08).           *)
(* pedal parses the submission once per report (cait_api.parse_program     *)
(* caches the root CaitNode) and every find_* / ensure_* / prevent_* call  *)
(* walks that same root through CaitNode.find_all.  CONTRACT: the answer   *)
(* to a query is a function of (program, query) alone - it never depends   *)
(* on which queries were asked before (HistoryIndependent).                *)
(* IMPLEMENTATION-SHAPED part: find_all installs visit_<Kind> handlers on  *)
(* a visitor; literal-type and literal-value queries go through the        *)
(* Num/Str/Bool aliases, which install a visit_Constant handler.  In the   *)
(* code the visitor is created per call, so nothing survives (handlers is  *)
(* reset).  Flag "visitor_reused" models a visitor kept on the node whose  *)
(* alias handler is not uninstalled: later node-kind queries then also     *)
(* collect the constants.                                                  *)
(***************************************************************************)
EXTENDS Integers, Sequences, FiniteSets, TLC, Json
CONSTANTS Feats, MaxOcc, MaxLen, Flags

\* features answered through the Constant aliases
ConstFeats == {"type:str", "type:int", "type:float", "type:bool", "lit:5", "lit:2.5", "lit:'hi'", "lit:True"}

\* "foreign": a query on ANOTHER text handed in explicitly (find_asts(kind, student_code=...)) that does not parse.
\* It answers 0 and says nothing about the submission.  IMPLEMENTATION-SHAPED: the tool keeps one success flag for
\* "the last parse"; the results of earlier parses are cached.  Flag "stale_failure" models the cache-hit path that
\* serves the cached tree of the submission without resetting the flag the failed foreign parse left behind.
\* "verifyOther": the instructor syntax-checks ANOTHER text with the Source tool (verify(other_text)); it answers
\* nothing about the submission either.  IMPLEMENTATION-SHAPED: the Source tool keeps the tree of the last text it
\* parsed and CAIT, when it has not parsed the submission yet, takes that tree instead of parsing.  Flag
\* "steals_foreign_tree" models taking it without checking whose text it is the tree of: the first query after
\* verifyOther is then answered on the other text (which contains none of the features) and the wrong tree is cached.
Pseudo == {"foreign", "verifyOther"}
VARIABLES prog, hist, handlers, failed, srcTree, cached,
          wrong        \* ghost: some query of this session was answered with something else than the program's count
vars == <<prog, hist, handlers, failed, srcTree, cached, wrong>>

Init == prog \in {p \in [Feats -> 0..MaxOcc] : \A f \in Pseudo \cap Feats : p[f] = 0}
        /\ hist = <<>> /\ handlers = {} /\ failed = FALSE
        /\ srcTree = "none" /\ cached = "none" /\ wrong = FALSE          \* whose tree the Source tool holds / CAIT has cached for the submission

RECURSIVE SumOver(_)
SumOver(S) == IF S = {} THEN 0 ELSE LET f == CHOOSE f \in S : TRUE IN prog[f] + SumOver(S \ {f})
Constants == SumOver(Feats \cap ConstFeats)          \* Constant nodes the program contains

\* what one find_all-based query returns
WrongTree == cached = "other" \/ (cached = "none" /\ srcTree = "other" /\ "steals_foreign_tree" \in Flags)
Answer(f) == IF f \in Pseudo THEN 0
             ELSE IF WrongTree THEN 0                                    \* asked of the other text's tree
             ELSE IF "stale_failure" \in Flags /\ failed THEN 0          \* `if not cait_report['success']: return []`
             ELSE IF f \in ConstFeats THEN prog[f]
             ELSE prog[f] + (IF "Constant" \in handlers THEN Constants ELSE 0)
Ask(f) == /\ Len(hist) < MaxLen
          /\ hist' = Append(hist, [f |-> f, ans |-> Answer(f)])
          /\ handlers' = IF "visitor_reused" \in Flags /\ f \in ConstFeats THEN handlers \cup {"Constant"}
                         ELSE IF "visitor_reused" \in Flags THEN handlers ELSE {}
          /\ failed' = (f = "foreign" \/ ("stale_failure" \in Flags /\ failed))
          /\ srcTree' = IF f = "verifyOther" THEN "other" ELSE srcTree
          /\ cached' = IF f \in Pseudo THEN cached ELSE IF WrongTree THEN "other" ELSE "own"
          /\ wrong' = (wrong \/ Answer(f) # prog[f])
          /\ UNCHANGED prog
Next == \E f \in Feats : Ask(f)
Spec == Init /\ [][Next]_vars

HistoryIndependent == \A i \in 1..Len(hist) : hist[i].ans = prog[hist[i].f]
\* the same contract without the history: with StateView as TLC's VIEW the reachable set is finite and sessions of EVERY
\* length are decided
NeverWrong == ~wrong
StateView == <<prog, handlers, failed, srcTree, cached, wrong>>
NothingSurvives == handlers = {}
Export == Len(hist) = MaxLen => PrintT(<<"VP", ToJson([prog |-> prog, hist |-> hist])>>)
=============================================================================
