------------------------------- MODULE CaitGen -------------------------------
(***************************************************************************)
(* C11: the generalisation lattice.  A base is a student program (flat     *)
(* tree S) with its candidate generalisation steps:                        *)
(*   wild  - replace the sub-expression at a node by ___                   *)
(*   expr  - replace it by a named __e__ placeholder                       *)
(*   var   - replace every occurrence of an identifier by _x_              *)
(*   drop  - drop a sibling statement (a body keeps at least one)          *)
(* Each step lists `prim` (nodes that become the placeholder) and `hide`   *)
(* (nodes that disappear below it).  Steps are added one at a time; two    *)
(* steps are compatible when neither touches a node the other hides.       *)
(* The by-construction witness maps every surviving pattern node to the    *)
(* program node it came from.  TLC checks in every reachable state that    *)
(* this witness satisfies the C10 contract IsEmbedding -- i.e. the         *)
(* contract never rejects an occurrence that exists by construction, and   *)
(* generalising never loses it (Monotone).                                 *)
(***************************************************************************)
EXTENDS CaitMatch, Json, IOUtils
CONSTANTS MaxSteps
Bases == JsonDeserialize(IOEnv.BASES_FILE)
VARIABLES base, gen
vars == <<base, gen>>

B == Bases[base]
St(i) == B.steps[i]
SetOf(seq) == {seq[k] : k \in 1..Len(seq)}
Touches(i) == SetOf(St(i).prim) \cup SetOf(St(i).hide)
Compatible(i, j) == Touches(i) \cap Touches(j) = {}
\* a body keeps at least one statement
BodyOk(g) == \A b \in 1..Len(B.bodies) :
    Cardinality({i \in g : St(i).k = "drop" /\ St(i).body = b}) < B.bodies[b]

Init == base \in 1..Len(Bases) /\ gen = {}
AddStep(i) == /\ i \notin gen /\ Cardinality(gen) < MaxSteps
              /\ \A j \in gen : Compatible(i, j)
              /\ BodyOk(gen \cup {i})
              /\ gen' = gen \cup {i} /\ UNCHANGED base
Next == \E i \in 1..Len(B.steps) : AddStep(i)
Spec == Init /\ [][Next]_vars

PatternOf(g) == [n \in 1..Len(B.S) |->
    IF \E i \in g : n \in SetOf(St(i).hide) THEN [B.S[n] EXCEPT !.ph = "skip"]
    ELSE IF \E i \in g : n \in SetOf(St(i).prim)
         THEN LET i == CHOOSE i \in g : n \in SetOf(St(i).prim) IN
              [B.S[n] EXCEPT !.ph = St(i).k, !.text = St(i).name]
    ELSE B.S[n]]
Witness(g) == {<<n, n>> : n \in {n \in 1..Len(B.S) : PatternOf(g)[n].ph # "skip"}}
SymOf(g) == LET vs == {i \in g : St(i).k = "var"}
                RECURSIVE ToSeq(_)
                ToSeq(s) == IF s = {} THEN <<>> ELSE LET i == CHOOSE i \in s : TRUE IN
                            <<[v |-> St(i).name, ids |-> <<St(i).orig>>]>> \o ToSeq(s \ {i})
            IN ToSeq(vs)
ExpsOf(g) == LET es == {i \in g : St(i).k = "expr"}
                 RECURSIVE ToSeq(_)
                 ToSeq(s) == IF s = {} THEN <<>> ELSE LET i == CHOOSE i \in s : TRUE IN
                             <<[e |-> St(i).name, s |-> St(i).prim[1]]>> \o ToSeq(s \ {i})
             IN ToSeq(es)

OriginalBindingIsAWitness == IsEmbedding(PatternOf(gen), B.S, Witness(gen), SymOf(gen), ExpsOf(gen))
Monotone == [][IsEmbedding(PatternOf(gen), B.S, Witness(gen), SymOf(gen), ExpsOf(gen)) =>
               IsEmbedding(PatternOf(gen'), B.S, Witness(gen'), SymOf(gen'), ExpsOf(gen'))]_vars
Export == PrintT(<<"VP", ToJson([base |-> base, gen |-> gen])>>)
=============================================================================
