#!/bin/bash
# Apply every kept seeded change in turn, run its property's quick check, record whether it is caught.
out=/verif/seeded/RESULTS.txt; : > $out.tmp
for d in /verif/seeded/*/; do s=$(basename $d); [ -f $d/patch.diff ] || continue
  timeout 1200 /verif/tools/run_seed.sh $s quick 2>&1 | grep -v '^s$' | tail -1 | cut -c1-260 >> $out.tmp
done
mv $out.tmp $out
