------------------------------ MODULE Sections ------------------------------
(***************************************************************************)
(* The Source tool's sections (pedal/source/sections.py, submission.py)    *)
(* as a state machine: separate_into_sections, next_section, the tools     *)
(* that report line numbers while a section is presented, stop_sections /  *)
(* resolve.                                                                *)
(*                                                                         *)
(* A file is a sequence of characters over {"1".."9" (the whole text of    *)
(* code line i), "M" (a marker line), "\n"}.                               *)
(*                                                                         *)
(* IMPLEMENTATION-SHAPED: re.split with a capturing group (even chunks are *)
(* code, odd chunks are the marker text), `section += 2`, the section      *)
(* number and `found` arithmetic, the line offset computed by counting     *)
(* newlines in the text before the section.                                *)
(* CONTRACT: Lossless, KthChunk, PastEndIsFeedback, WholeFileLines (stated *)
(* through absolute character positions, independently of the offset       *)
(* arithmetic), Restored.                                                  *)
(***************************************************************************)
EXTENDS Integers, Sequences, FiniteSets, TLC, Json

CONSTANTS MaxLines, Modes, MaxNext, Flags, LineKinds, MaxSep, MinMarkers

VARIABLES file, chunks, idx, mode, main, offset, stack, pastEnd, raised, diags, hist
vars == <<file, chunks, idx, mode, main, offset, stack, pastEnd, raised, diags, hist>>

(* ---------- text helpers ---------- *)
RECURSIVE Flatten(_)
Flatten(ss) == IF ss = <<>> THEN <<>> ELSE Head(ss) \o Flatten(Tail(ss))
NL(s) == Cardinality({i \in 1..Len(s) : s[i] = "\n"})
First(s, ch) == CHOOSE i \in 1..Len(s) : s[i] = ch /\ \A j \in 1..(i - 1) : s[j] # ch
Has(s, ch) == \E i \in 1..Len(s) : s[i] = ch
\* re.split(r'^(marker)$', text, flags=MULTILINE): [text, marker, text, marker, ..., text]
RECURSIVE SplitM(_)
SplitM(s) == IF Has(s, "M")
             THEN LET i == First(s, "M") IN <<SubSeq(s, 1, i - 1), <<"M">>>> \o SplitM(SubSeq(s, i + 1, Len(s)))
             ELSE <<s>>
\* str.split("\n")
RECURSIVE SplitNL(_)
SplitNL(s) == IF Has(s, "\n")
              THEN LET i == First(s, "\n") IN <<SubSeq(s, 1, i - 1)>> \o SplitNL(SubSeq(s, i + 1, Len(s)))
              ELSE <<s>>

(* ---------- files ---------- *)
\* kinds: "c" code line (named by its line number), "m" marker line, "f" a harmless line that contains a form
\* feed character (one line for Python's parser and for "\n" counting, two for str.splitlines)
LineTok(kinds, i) == IF kinds[i] = "m" THEN "M" ELSE IF kinds[i] = "f" THEN "F" ELSE ToString(i)
RECURSIVE Join(_, _)
Join(kinds, i) == IF i > Len(kinds) THEN <<>>
                  ELSE <<LineTok(kinds, i)>> \o (IF i < Len(kinds) THEN <<"\n">> ELSE <<>>) \o Join(kinds, i + 1)
\* MinMarkers focuses a configuration on files with many sections (a split limited to the first few markers only
\* shows with more of them than any sampled file has)
Markers(k) == Cardinality({i \in DOMAIN k : k[i] = "m"})
Files == {Join(k, 1) \o t : k \in {kk \in UNION {[1..n -> LineKinds] : n \in 1..MaxLines} : Markers(kk) >= MinMarkers},
                            t \in {<<>>, <<"\n">>}}

(* ---------- CONTRACT helpers: absolute positions ---------- *)
\* 1-based line number in the original file of the character at absolute position p
LineAt(p) == 1 + NL(SubSeq(file, 1, p - 1))
\* absolute position in the file of the first character of chunk k
ChunkStart(cs, k) == 1 + Len(Flatten(SubSeq(cs, 1, k - 1)))
\* position inside text s where its local line l starts (l >= 1)
RECURSIVE LocalStart(_, _)
LocalStart(s, l) == IF l = 1 THEN 1 ELSE LET i == First(s, "\n") IN i + LocalStart(SubSeq(s, i + 1, Len(s)), l - 1)
\* original line of local line l of what is currently presented (presented text begins at absolute `start`)
OrigLine(start, s, l) == LineAt(start + LocalStart(s, l) - 1)

(* ---------- implementation-shaped arithmetic ---------- *)
SectionNumber(i) == (i + 1) \div 2                         \* _calculate_section_number
Found(cs) == IF "found_off_by_one" \in Flags THEN (Len(cs) + 1) \div 2 ELSE (Len(cs) - 1) \div 2
\* diagnostics: every code line of the presented text gets (local line, reported line) per tool;
\* each tool adds the submission's line offset -- flag runtime_no_offset models a tool that forgets it
CodeLines(s) == {l \in 1..Len(SplitNL(s)) : SplitNL(s)[l] # <<>> /\ SplitNL(s)[l] # <<"M">> /\ SplitNL(s)[l] # <<"F">>}
Reported(tool, l, off) == IF tool = "runtime" /\ "runtime_no_offset" \in Flags THEN l ELSE l + off
DiagsOf(s, off) == {[tool |-> t, tok |-> SplitNL(s)[l][1], reported |-> Reported(t, l, off)] :
                        t \in {"syntax", "tifa", "runtime", "traceback"}, l \in CodeLines(s)}

Proj == [main |-> main, offset |-> offset, stack |-> Len(stack), pastEnd |-> pastEnd, raised |-> raised,
         diags |-> diags, idx |-> idx]
Step(a) == hist' = Append(hist, [a |-> a, s |-> Proj'])

Init == /\ file \in Files /\ chunks = <<>> /\ idx = -1 /\ mode \in Modes /\ main = file /\ offset = 0
        /\ stack = <<>> /\ pastEnd = FALSE /\ raised = FALSE /\ diags = {} /\ hist = <<>>

\* separating again after the sections were stopped starts a new walk over the same file (histories of several walks)
Stopped == hist # <<>> /\ hist[Len(hist)].a \in {"stop", "resolve"}
NSep == Cardinality({k \in 1..Len(hist) : hist[k].a = "separate"})
Separate == /\ stack = <<>> /\ NSep < MaxSep /\ (hist = <<>> \/ Stopped) /\ ~raised
            /\ chunks' = SplitM(file) /\ idx' = 0
            \* clear_line_offsets(); flag offset_not_cleared models a re-separation that keeps the last walk's offset
            /\ stack' = <<file>> /\ main' = SplitM(file)[1]
            /\ offset' = (IF "offset_not_cleared" \in Flags THEN offset ELSE 0)
            /\ diags' = DiagsOf(SplitM(file)[1], IF "offset_not_cleared" \in Flags THEN offset ELSE 0)
            /\ UNCHANGED <<file, mode, pastEnd, raised>> /\ Step("separate")

\* once the whole file is the main code again, a diagnostic on it must carry whole-file numbers: the offset of the last
\* section is dropped (flag stale_offset models code that leaves it in place)
StoppedOffset == IF "stale_offset" \in Flags THEN offset ELSE 0
NextSection ==
    /\ idx >= 0 /\ stack # <<>> /\ ~pastEnd /\ ~raised
    /\ Cardinality({k \in 1..Len(hist) : hist[k].a = "next"}) < MaxNext
    /\ LET i == idx + 2
           number == SectionNumber(i)
       IN /\ idx' = i
          /\ IF number <= Found(chunks)
             THEN IF i + 1 > Len(chunks)
                  THEN \* sections[section_index] does not exist
                       IF mode = "independent"
                       THEN /\ raised' = TRUE /\ main' = file /\ UNCHANGED <<offset, pastEnd, diags>>  \* IndexError
                       ELSE /\ main' = file /\ diags' = DiagsOf(file, 0)               \* ''.join(sections[:i+1]) = whole file
                            /\ UNCHANGED <<offset, pastEnd, raised>>
                  ELSE IF mode = "independent"
                       THEN LET off == NL(Flatten(SubSeq(chunks, 1, i))) IN         \* len(old_code.split("\n")) - 1
                            /\ main' = chunks[i + 1] /\ offset' = off /\ diags' = DiagsOf(chunks[i + 1], off)
                            /\ UNCHANGED <<pastEnd, raised>>
                       ELSE /\ main' = Flatten(SubSeq(chunks, 1, i + 1)) /\ diags' = DiagsOf(Flatten(SubSeq(chunks, 1, i + 1)), offset)
                            /\ UNCHANGED <<offset, pastEnd, raised>>
             \* the whole file is presented again: no section offset applies any more (flag stale_offset: it is kept)
             ELSE /\ pastEnd' = TRUE /\ main' = file /\ diags' = {} /\ offset' = StoppedOffset /\ UNCHANGED raised
    /\ UNCHANGED <<file, chunks, mode, stack>> /\ Step("next")

Stop == /\ stack # <<>> /\ ~raised /\ main' = Head(stack) /\ stack' = Tail(stack) /\ diags' = {}
        /\ offset' = StoppedOffset
        /\ UNCHANGED <<file, chunks, idx, mode, pastEnd, raised>> /\ Step("stop")
\* resolving runs the stop_any_sections hook
Resolve == /\ idx >= 0 /\ ~raised /\ ~Stopped /\ main' = (IF stack # <<>> THEN Head(stack) ELSE main)
           /\ stack' = <<>> /\ diags' = {} /\ offset' = StoppedOffset
           /\ UNCHANGED <<file, chunks, idx, mode, pastEnd, raised>> /\ Step("resolve")

Done == Stopped /\ (NSep >= MaxSep \/ pastEnd)
Next == ~Done /\ (Separate \/ NextSection \/ Stop \/ Resolve)
Spec == Init /\ [][Next]_vars

(* ---------- CONTRACT (C17) ---------- *)
Presenting == idx >= 0 /\ stack # <<>> /\ ~pastEnd /\ ~raised /\ ~Stopped
ExistsSection == idx + 1 <= Len(chunks)
Lossless == chunks # <<>> => Flatten(chunks) = file
KthChunk == Presenting /\ ExistsSection =>
    main = IF mode = "independent" THEN chunks[idx + 1] ELSE Flatten(SubSeq(chunks, 1, idx + 1))
\* a section exists iff its chunk exists; asking past the end is a feedback, never an error, never a silent re-presentation
PastEndIsFeedback == idx >= 0 => ~raised /\ (pastEnd <=> ~ExistsSection)
PresentStart == IF mode = "independent" THEN ChunkStart(chunks, idx + 1) ELSE 1
WholeFileLines == Presenting /\ ExistsSection =>
    \A d \in diags : \E l \in CodeLines(main) :
        /\ SplitNL(main)[l][1] = d.tok
        /\ d.reported = OrigLine(PresentStart, main, l)
        /\ d.tok = ToString(d.reported)      \* code line i is the i-th line of the original file
Restored == Stopped => main = file /\ stack = <<>>
\* whenever the whole file is presented (before separating, past the end, after stopping) no offset is in force
WholeFileNoOffset == main = file /\ (stack = <<>> \/ pastEnd) => offset = 0

Export == Done => PrintT(<<"VP", ToJson([file |-> file, mode |-> mode, hist |-> hist])>>)
=============================================================================
