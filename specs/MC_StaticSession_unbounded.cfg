SPECIFICATION Spec
CONSTANTS
  Feats = {"type:str", "lit:5", "lit:2.5", "ast:For", "ast:While", "call:print", "call:len", "op:+", "op:*", "method:append", "foreign", "verifyOther"}
  MaxOcc = 1
  MaxLen = 1000000
  Flags = {}
INVARIANT NeverWrong
INVARIANT NothingSurvives
VIEW StateView
CHECK_DEADLOCK FALSE
