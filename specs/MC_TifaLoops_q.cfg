SPECIFICATION Spec
CONSTANTS
  Vars = {"x", "y"}
  MaxTok = 6
  MaxDepth = 2
  LoopKinds = {"while", "forE", "forN", "forU"}
  Funcs = TRUE
INVARIANT StoresNonEmptyOutsideDeadCode
INVARIANT DefsOnlyGrow
CONSTRAINT Export
CHECK_DEADLOCK FALSE
