SPECIFICATION Spec
CONSTANTS
  Cls = {"P", "C", "T"}
  MsgKinds = {"explicit", "kwtemplate", "class", "kwnested"}
  Outs = {"T", "F", "CR", "MR", "CX"}
  DelayCls = {"P"}
  Vals = {"o1"}
  Depth = 3
  MaxObjs = 2
  Parents = {"none"}
  Fmts = {"F1", "F2"}
  BadOverrides = FALSE
  SecondReport = FALSE
  Variant = "impl"
INVARIANT ExactlyOnce
INVARIANT RightList
INVARIANT Truth
INVARIANT ErrorPath
INVARIANT RaisesToCaller
INVARIANT MessageDerivation
INVARIANT OverridesRestored
CONSTRAINT Export
CHECK_DEADLOCK FALSE
