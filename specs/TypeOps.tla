------------------------------- MODULE TypeOps -------------------------------
(***************************************************************************)
(* TIFA's operator typing (pedal/types/operations.py, tifa_visitor.py)     *)
(* against what CPython does at run time (C19).                            *)
(* Py(op, l, r) is a rule-based definition of CPython's behaviour on the   *)
(* core types: "err" (TypeError), or the type of the result; it is the     *)
(* spec's PREDICTION of the environment and is cross-checked against real  *)
(* CPython on sample values in every run (a mismatch is a machinery error).*)
(* CONTRACT: TIFA must report incompatible types iff Py = "err"; when TIFA *)
(* is silent, the type it infers for the result must be the type of the    *)
(* run-time value.  Expression trees of depth 2 compose the table.         *)
(***************************************************************************)
EXTENDS Integers, Sequences, FiniteSets, TLC, Json, PyTable
CONSTANTS Types, BinOps, CmpOps, Depth2, Shapes

VARIABLES e, verdict
vars == <<e, verdict>>
Leaf == [k : {"leaf"}, t : Types]
\* shape of the operand value: "full" (a non-empty representative) or "empty" ('' / [] / ()): CPython's outcome depends on
\* the operand TYPES only, so the table is the same -- an analysis that special-cases empty containers must not differ
Sized(t) == t \in {"str", "list", "tuple"}
Cell == {c \in [k : {"bin"}, op : BinOps \cup CmpOps, l : Types, r : Types, ls : Shapes, rs : Shapes] :
            /\ (c.ls = "empty" => Sized(c.l)) /\ (c.rs = "empty" => Sized(c.r))
            /\ (c.ls = "neg" => c.l \in {"int", "float"}) /\ (c.rs = "neg" => c.r \in {"int", "float"})}
\* "neg": a negative number.  Where the VALUE of an operand changes CPython's outcome for the same operand types: a
\* negative integer exponent gives a float, a negative shift count is a ValueError
PyS(op, l, r, ls, rs) ==
    IF op = "**" /\ l \in {"int", "bool"} /\ r = "int" /\ rs = "neg" THEN "float"
    ELSE IF op \in {"<<", ">>"} /\ r = "int" /\ rs = "neg" THEN "valuedep"
    ELSE Py(op, l, r)
\* depth 2: (l op1 r) op2 c   and   c op2 (l op1 r), with an arithmetic inner operator
Tree2 == IF Depth2 THEN [k : {"left2", "right2"}, op1 : BinOps, op2 : BinOps \cup CmpOps, l : Types, r : Types, c : Types] ELSE {}

\* chained comparison  l != r op2 c  (Python: (l != r) and (r op2 c), the middle operand evaluated once).  With operands
\* of two different core types the first link is true whatever the values, so the second link IS evaluated: it compares
\* the MIDDLE operand with the last one
Chain == [k : {"chain"}, op1 : {"!="}, op2 : CmpOps, l : Types, r : Types, c : Types]
ChainCells == {x \in Chain : x.l # x.r}
TypeOf(x) == CASE x.k = "chain" -> (IF Py(x.op2, x.r, x.c) = "err" THEN "err" ELSE "bool")
               [] x.k = "bin" -> PyS(x.op, x.l, x.r, x.ls, x.rs)
               [] x.k = "left2" -> (LET inner == Py(x.op1, x.l, x.r) IN
                                    IF inner \in {"err", "valuedep"} THEN inner ELSE Py(x.op2, inner, x.c))
               [] x.k = "right2" -> (LET inner == Py(x.op1, x.l, x.r) IN
                                     IF inner \in {"err", "valuedep"} THEN inner ELSE Py(x.op2, x.c, inner))
               [] OTHER -> x.t
Init == e \in Cell \cup Tree2 \cup ChainCells /\ verdict = "pending"
Judge == verdict = "pending" /\ verdict' = TypeOf(e) /\ UNCHANGED e
Spec == Init /\ [][Judge]_vars

\* design sanity: arithmetic on numbers never errs; errors are symmetric for commutative shapes
NumClosed == \A op \in BinOps \cap {"+", "-", "*", "/", "//", "%", "**"} : \A l, r \in Types \cap {"int", "float"} : Py(op, l, r) # "err"
Export == verdict # "pending" => PrintT(<<"VP", ToJson([e |-> e, ty |-> verdict])>>)
=============================================================================
