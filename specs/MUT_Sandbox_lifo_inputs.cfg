SPECIFICATION Spec
CONSTANTS
  EffTokens = {"pa", "in"}
  MaxEff = 1
  Modes = {"normal"}
  FnModes = {"normal"}
  MaxFns = 1
  Depth = 2
  InputOps = {"set_input"}
  Entries = {"run", "call", "evaluate"}
  TracerStyles = {"none"}
  Threadeds = {FALSE}
  Givens = {}
  Blockeds = {"none"}
  Flags = {"lifo_inputs"}
INVARIANT Restored
INVARIANT Contained
INVARIANT NoSpuriousFb
INVARIANT OutputLedger
INVARIANT InputFifo
CHECK_DEADLOCK FALSE
