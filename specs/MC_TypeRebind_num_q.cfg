SPECIFICATION Spec
CONSTANTS
  Types = {"int", "float"}
  BinOps = {"+", "-", "*", "/", "//", "%", "**", "|", "<<"}
  MaxRebinds = 2
  UseK = TRUE
INVARIANT TypeOK
PROPERTY StopsAtError
CONSTRAINT Export
CHECK_DEADLOCK FALSE
