SPECIFICATION Spec
CONSTANTS
  Feats = {"type:str", "lit:5", "lit:2.5", "ast:For", "ast:While", "call:print", "call:len", "op:+", "op:*", "method:append", "foreign", "verifyOther"}
  MaxOcc = 1
  MaxLen = 8
  Flags = {}
INVARIANT HistoryIndependent
INVARIANT NothingSurvives
CONSTRAINT Export
CHECK_DEADLOCK FALSE
