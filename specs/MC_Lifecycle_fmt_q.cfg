SPECIFICATION Spec
CONSTANTS
  Cls = {"P"}
  MsgKinds = {"kwtemplate", "kwcustom", "kwattr", "kwhostile", "kwshared"}
  Outs = {"T", "F"}
  DelayCls = {}
  Vals = {"o1"}
  Depth = 3
  MaxObjs = 2
  Parents = {"none"}
  Fmts = {"F1", "F2", "F3"}
  BadOverrides = FALSE
  SecondReport = FALSE
  Variant = "impl"
INVARIANT ExactlyOnce
INVARIANT RightList
INVARIANT Truth
INVARIANT ErrorPath
INVARIANT RaisesToCaller
INVARIANT MessageDerivation
INVARIANT OverridesRestored
CONSTRAINT Export
CHECK_DEADLOCK FALSE
