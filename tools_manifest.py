#!/venv/bin/python
"""Regenerate MANIFEST.json from the table below (keeps it valid at all times)."""
import json, os
ROOT = os.path.dirname(os.path.abspath(__file__))
props = [json.loads(l) for l in open(os.path.join(ROOT, "properties.jsonl"))]
CLAIMED = {
 "C01": dict(engine="resolver", ref="6 C01/C02/C03",
   text="TLC model-checks the implementation-shaped resolve (stable sort by by_priority, fold of FinalFeedback.merge, finalize) against the declarative contract ShownIsBest/DefaultIffNone on every report of bounded universes (pairs over 7-13 categories x 7-12 priorities x muted, triples over a reduced product, suppression sets <= 2 over all five suppression forms); every exported report is rebuilt through the real Feedback API (keyword style and generated subclasses) and resolved by simple.resolve and full.resolve, and thousands of random API histories over the full attribute product are validated as traces by TLC against the contract.",
   note="Trusted: TLC, the TLA+ contract of the documented rank order, the concretiser/projector in bind/resolver.py. Bounded universes; unknown priority strings, delayed-condition groups and suppress('correct') are outside the generated space.",
   technique="TLA+ spec + TLC exhaustive model checking, spec->code replay of every exported state, code->spec batch trace validation"),
 "C02": dict(engine="resolver", ref="6 C01/C02/C03",
   text="Same machinery as C01 with the CorrectIff / NoCorrectWithVisibleNegative invariants: TLC checks the fold's conjunction against the declarative contract over all pairs/triples of correct in {True,False,None} x eligibility class x category (incl. 'complete') x suppression; every exported case is replayed on the real resolvers; random histories are trace-validated.",
   note="Trusted: as C01. hide_correctness / suppress('correct') not generated.",
   technique="TLA+ spec + TLC exhaustive model checking, spec->code replay, trace validation"),
 "C03": dict(engine="resolver", ref="6 C01/C02/C03",
   text="Same machinery as C01 with the ScoreIs invariant in integer centi-points: valence x triggered x muted x unscored x suppressed x score forms ('+N','-N','N%', ints, floats) over all pairs (triples on a reduced product); replay compares round(score*100); random histories with arbitrary documented score forms are trace-validated.",
   note="Trusted: as C01. Score strings outside the documented forms are not generated; scores are chosen so that the sum is exact at two decimals.",
   technique="TLA+ spec + TLC exhaustive model checking, spec->code replay, trace validation"),
}
PENDING = "machinery for this property is not built yet in this revision (planned in DESIGN.md section 6); it will move to checks when its TLA+ specification and binding are committed"
man = {
 "version": 1,
 "setup_cmd": "cd /verif && ./setup.sh",
 "hooks": {"guard": "PEDAL_EDU_PEDAL_VERIF", "enable": "checks set PEDAL_EDU_PEDAL_VERIF=1 in their own process environment and import pedal from /repo's working tree (pure Python, no build step)",
           "baseline_off_cmd": "cd /repo && env -u PEDAL_EDU_PEDAL_VERIF /venv/bin/python -m pytest -ra -q -p no:cacheprovider --timeout=900 --continue-on-collection-errors",
           "source_commits": [], "add_only": True},
 "engines": [{"name": "resolver", "path": "specs/Resolver.tla + checks/resolver.py + bind/resolver.py", "serves_properties": ["C01", "C02", "C03"],
              "kind_free_text": "TLA+ spec checked by TLC; export replay and batch trace validation"}],
 "checks": [], "not_applicable": [],
 "notes": "All checks: ./check <id> --tier quick|thorough ; replay: ./check <id> --replay <file>. Exit 2 = machinery error.",
}
extra = os.path.join(ROOT, "manifest_extra.json")
if os.path.exists(extra):
    ex = json.load(open(extra))
    CLAIMED.update(ex.get("claimed", {}))
    man["engines"] += ex.get("engines", [])
    man["hooks"]["source_commits"] = ex.get("hook_commits", [])
    NA = ex.get("not_applicable", {})
else:
    NA = {}
for p in props:
    i = p["id"]
    if i in CLAIMED:
        c = CLAIMED[i]
        man["checks"].append({
            "property_id": i, "quick_cmd": "./check %s --tier quick" % i, "thorough_cmd": "./check %s --tier thorough" % i,
            "evidence_file": "/verif/evidence/%s.json" % i, "replay_cmd_template": "./check %s --replay {path}" % i,
            "engine": c["engine"], "level_claimed": {"category": c.get("category", "model_checking"), "text": c["text"], "design_ref": "DESIGN.md section " + c["ref"]},
            "level_note": c["note"], "technique": c["technique"]})
    else:
        man["not_applicable"].append({"property_id": i, "reason": NA.get(i, PENDING)})
json.dump(man, open(os.path.join(ROOT, "MANIFEST.json"), "w"), indent=1)
import jsonschema
jsonschema.validate(man, json.load(open("/root/.vp/MANIFEST.schema.json")))
print("MANIFEST ok:", len(man["checks"]), "checks,", len(man["not_applicable"]), "not claimed")
