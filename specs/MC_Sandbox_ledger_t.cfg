SPECIFICATION Spec
CONSTANTS
  EffTokens = {"pa", "pae", "pn", "pas", "pab", "w", "sp", "pnn", "in"}
  MaxEff = 2
  Modes = {"normal", "exc"}
  FnModes = {"normal", "exc"}
  MaxFns = 1
  Depth = 3
  InputOps = {"clear_output", "set_input", "clear_input"}
  Entries = {"run", "call"}
  TracerStyles = {"none"}
  Threadeds = {FALSE}
  Flags = {}
INVARIANT Restored
INVARIANT Contained
INVARIANT NoSpuriousFb
INVARIANT OutputLedger
INVARIANT InputFifo
CONSTRAINT Export
CHECK_DEADLOCK FALSE
