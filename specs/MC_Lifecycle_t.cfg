SPECIFICATION Spec
CONSTANTS
  Cls = {"P", "C"}
  MsgKinds = {"explicit", "class"}
  Outs = {"T", "MR"}
  DelayCls = {}
  Vals = {"o1"}
  Depth = 5
  MaxObjs = 3
  Parents = {"none"}
  Fmts = {"F1", "F2"}
  BadOverrides = FALSE
  SecondReport = FALSE
  Variant = "impl"
INVARIANT ExactlyOnce
INVARIANT RightList
INVARIANT Truth
INVARIANT ErrorPath
INVARIANT RaisesToCaller
INVARIANT MessageDerivation
INVARIANT OverridesRestored
CONSTRAINT Export
CHECK_DEADLOCK FALSE
