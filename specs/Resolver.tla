------------------------------ MODULE Resolver ------------------------------
(***************************************************************************)
(* Report + resolver of pedal (pedal/core/report.py, feedback.py,          *)
(* final_feedback.py, scoring.py, resolvers/simple.py, resolvers/full.py). *)
(*                                                                         *)
(* State: the feedback objects of a report in creation order, the          *)
(* suppression registry and the result of the last resolve.                *)
(* Actions: AddFeedback, Suppress, Resolve (one per public call).          *)
(*                                                                         *)
(* Two layers:                                                             *)
(*  - CONTRACT: declarative predicates ShownIsBest, DefaultIffNone,        *)
(*    CorrectIff, ScoreIs (properties C01, C02, C03).                      *)
(*  - IMPLEMENTATION-SHAPED: ImplResolve mirrors simple.resolve: concat    *)
(*    active+ignored, stable sort by by_priority, fold FinalFeedback.merge,*)
(*    finalize.  Resolve sets result to ImplResolve, and TLC checks that   *)
(*    it satisfies the contract in every reachable state.                  *)
(***************************************************************************)
EXTENDS Integers, Sequences, FiniteSets, TLC, Json

CONSTANTS Cats, Prios, Trigs, Muteds, Kinds, Elses, Labels, Flds, Corrects, Valences,
          Scores, Unscoreds, Msgs, SuppU, MaxFb, MaxSupp, Variant

VARIABLES fbs, supp, result
vars == <<fbs, supp, result>>

None == [shown |-> -1, correct |-> FALSE, score |-> 0]

(* ---------- documented rank order ---------- *)
Order == <<"highest", "syntax", "mistakes", "instructor", "algorithmic", "runtime", "student",
           "specification", "positive", "instructions", "uncategorized", "lowest">>
InOrder(s) == \E i \in 1..Len(Order) : Order[i] = s
IdxOf(s) == IF InOrder(s) THEN CHOOSE i \in 1..Len(Order) : Order[i] = s ELSE Len(Order) + 1
Alias(p) == CASE p = "parser" -> "syntax" [] p = "verifier" -> "syntax"
              [] p = "analyzer" -> "algorithmic" [] OTHER -> p

\* CONTRACT rank (scaled by 10): category rank, re-ranked by a category-valued priority,
\* shifted by high/low inside its rank.
Rank(f) == LET p == IF f.prio = "none" THEN "medium" ELSE Alias(f.prio) IN
           IF InOrder(p) THEN IdxOf(p) * 10 + 5
           ELSE IdxOf(IF f.cat = "none" THEN "uncategorized" ELSE f.cat) * 10 + (CASE p = "low" -> 7 [] p = "medium" -> 5 [] p = "high" -> 3 [] OTHER -> 1)

(* ---------- suppression ---------- *)
\* Field tokens stand for dictionaries over two keys <<k, j>>; "-" = key absent (suppression side only).
FM(t) == CASE t = "f1" -> <<"1", "1">> [] t = "f2" -> <<"2", "1">> [] t = "f3" -> <<"1", "2">>
           [] t = "k1" -> <<"1", "-">> [] t = "j1" -> <<"-", "1">> [] t = "k2" -> <<"2", "-">>
           [] OTHER -> <<"-", "-">>
\* a suppression's fields match when every key it names has the same value in the feedback
FldMatch(sf, ff) == \A i \in 1..2 : FM(sf)[i] = "-" \/ FM(sf)[i] = FM(ff)[i]
\* recorded traces carry explicit key/value pairs (kv) and the lower-cased label (llabel) instead of tokens
FldMatchG(s, f) == IF "kv" \in DOMAIN s
                   THEN \A i \in 1..Len(s.kv) : \E j \in 1..Len(f.kv) : f.kv[j] = s.kv[i]
                   ELSE FldMatch(s.fld, f.flds)
\* label tokens: "B" is the one written with a capital letter (str.lower gives "b")
Lower(l) == IF l = "B" THEN "b" ELSE l
LabelLower(f) == IF "llabel" \in DOMAIN f THEN f.llabel ELSE Lower(f.label)
\* "parser" is one of the documented aliases (of "syntax"): a suppression and a feedback that name the same category by
\* either spelling are about the same category
Canon(c) == IF c = "parser" THEN "syntax" ELSE c
Suppressed(f, S) == \E s \in S :
    \/ s.k = "cat" /\ Canon(s.cat) = Canon(f.cat)
    \/ s.k = "catf" /\ Canon(s.cat) = Canon(f.cat) /\ FldMatchG(s, f)                  \* a whole category, narrowed by fields
    \/ s.k = "catlabel" /\ Canon(s.cat) = Canon(f.cat) /\ Lower(s.label) = LabelLower(f)   \* category-scoped labels compare lower-cased
    \/ s.k = "catlabelf" /\ Canon(s.cat) = Canon(f.cat) /\ Lower(s.label) = LabelLower(f) /\ FldMatchG(s, f)
    \/ s.k = "label" /\ s.label = f.label
    \/ s.k = "labelf" /\ s.label = f.label /\ FldMatchG(s, f)

Eligible(f, S) == f.trig /\ ~f.muted /\ f.kind # "Compliment" /\ ~Suppressed(f, S)

(* ---------- score arithmetic in integer centi-points ---------- *)
Centi(s) == CASE s = "+10" -> 1000 [] s = "-5" -> -500 [] s = "50%" -> 50 [] s = "0.25" -> 25
              [] s = "10" -> 1000 [] s = "+20%" -> 20 [] s = "-10%" -> -10 [] s = "1" -> 100
              [] s = "-0.5" -> -50 [] OTHER -> 0
CentiOf(f) == IF "centi" \in DOMAIN f THEN f.centi ELSE Centi(f.score)
\* thousandths, for scores that are not a whole number of percent (0.125, '12.5%'); the documented rounding to two
\* decimals happens ONCE, on the sum (Python's round: exact ties go to the even neighbour)
Milli(s) == CASE s = "12.5%" -> 125 [] s = "0.125" -> 125 [] s = "+37.5%" -> 375 [] s = "-12.5%" -> -125 [] s = "0.625" -> 625
              [] OTHER -> 10 * Centi(s)
MilliOf(f) == IF "milli" \in DOMAIN f THEN f.milli ELSE IF "centi" \in DOMAIN f THEN 10 * f.centi ELSE Milli(f.score)
RoundPos(m) == LET q == m \div 10  r == m % 10 IN
               IF r < 5 THEN q ELSE IF r > 5 THEN q + 1 ELSE IF q % 2 = 0 THEN q ELSE q + 1
RoundHE(m) == IF m >= 0 THEN RoundPos(m) ELSE -RoundPos(-m)
Contribution(f, S) ==
    IF Suppressed(f, S) \/ f.unscored \/ f.score = "none" THEN 0
    ELSE IF (f.valence # "neg") = f.trig THEN MilliOf(f) ELSE 0
RECURSIVE SumC(_, _, _)
SumC(F, S, i) == IF i > Len(F) THEN 0 ELSE Contribution(F[i], S) + SumC(F, S, i + 1)

(* ---------- CONTRACT predicates over (F, S, r) ---------- *)
EligIdx(F, S) == {i \in 1..Len(F) : Eligible(F[i], S)}
Best(F, S, i) == /\ i \in EligIdx(F, S)
                 /\ \A j \in EligIdx(F, S) : \/ Rank(F[j]) > Rank(F[i])
                                             \/ Rank(F[j]) = Rank(F[i]) /\ j >= i
ShownIsBestP(F, S, r) == r.shown > 0 => Best(F, S, r.shown)
DefaultIffNoneP(F, S, r) == (r.shown = 0) <=> (EligIdx(F, S) = {})
CorrectIffP(F, S, r) == r.correct <=> \A i \in EligIdx(F, S) : F[i].correct = "T"
ScoreIsP(F, S, r) == r.score = IF EligIdx(F, S) = {} THEN 100 ELSE RoundHE(SumC(F, S, 1))

(* ---------- IMPLEMENTATION-SHAPED layer (simple.resolve / FinalFeedback) ---------- *)
\* by_priority: value + offset, scaled by 10
ImplKey(f) ==
    LET cat == IF f.cat = "none" THEN "uncategorized" ELSE f.cat   \* by_priority: None -> UNKNOWN
        value0 == IF InOrder(cat) THEN IdxOf(cat) ELSE Len(Order) + 1
        p0 == IF f.prio = "none" THEN "medium" ELSE Alias(f.prio)
        value == IF InOrder(p0) THEN IdxOf(p0) ELSE value0
        p == IF InOrder(p0) THEN "medium" ELSE p0
        off == IF p = "low" THEN 7 ELSE IF p = "medium" THEN 5 ELSE IF p = "high" THEN 3 ELSE 1
    IN value * 10 + off
\* report.feedback + report.ignored_feedback: triggered ones (creation order) then untriggered
Concat(F) == SelectSeq([i \in 1..Len(F) |-> i], LAMBDA i : F[i].trig) \o
             SelectSeq([i \in 1..Len(F) |-> i], LAMBDA i : ~F[i].trig)
\* list.sort is stable: position k of the sorted list holds the element with exactly k-1
\* predecessors under (key, position-in-input)
StableSort(F, idx) ==
    LET before(a, b) == \/ ImplKey(F[idx[a]]) < ImplKey(F[idx[b]])
                        \/ ImplKey(F[idx[a]]) = ImplKey(F[idx[b]]) /\ a < b
        pos(a) == Cardinality({b \in 1..Len(idx) : before(b, a)}) + 1
    IN [k \in 1..Len(idx) |-> idx[CHOOSE a \in 1..Len(idx) : pos(a) = k]]
\* FinalFeedback.merge, one feedback
Merge(acc, F, S, i) ==
    LET f == F[i] IN
    IF Suppressed(f, S) THEN acc
    ELSE LET inv == (f.valence # "neg") = (~f.trig)
             acc1 == IF ~f.unscored /\ f.score # "none" /\ ~inv
                     THEN [acc EXCEPT !.score = @ + MilliOf(f)] ELSE acc
         IN IF ~f.trig /\ f.els THEN acc1
            ELSE IF ~f.trig \/ f.muted THEN acc1
            ELSE IF f.kind = "Compliment" THEN acc1
            ELSE [acc1 EXCEPT !.correct = (f.correct = "T") /\ @,
                              !.shown = IF @ = 0 /\ ~(Variant = "blank_message_skipped" /\ f.msg = "empty")
                                        THEN i ELSE @]   \* claimed whatever the message text is (msg = "empty": '')
RECURSIVE Fold(_, _, _, _, _)
Fold(acc, F, S, order, k) == IF k > Len(order) THEN acc
                             ELSE Fold(Merge(acc, F, S, order[k]), F, S, order, k + 1)
ImplResolve(F, S) ==
    LET acc == Fold([shown |-> 0, correct |-> TRUE, score |-> 0], F, S, StableSort(F, Concat(F)), 1)
    IN IF acc.shown = 0 THEN [shown |-> 0, correct |-> TRUE, score |-> 100]
       ELSE [acc EXCEPT !.score = RoundHE(@)]       \* combine_scores: round(total, 2)

(* ---------- deliberately wrong variants used as binding self-tests (mutants) ---------- *)
MutResolve(F, S) ==
    CASE Variant = "unstable_sort" ->   \* ties broken by last created
           LET acc == Fold([shown |-> 0, correct |-> TRUE, score |-> 0], F, S,
                           LET s == StableSort(F, Concat(F)) IN [k \in 1..Len(s) |-> s[Len(s) + 1 - k]], 1)
           IN IF acc.shown = 0 THEN [shown |-> 0, correct |-> TRUE, score |-> 100] ELSE [acc EXCEPT !.score = RoundHE(@)]
      [] Variant = "correct_or" ->
           LET r == ImplResolve(F, S) IN
           [r EXCEPT !.correct = IF r.shown = 0 THEN TRUE ELSE \E i \in EligIdx(F, S) : F[i].correct = "T"]
      [] Variant = "muted_unscored" ->
           LET r == ImplResolve(F, S) IN
           IF r.shown = 0 THEN r ELSE
           [r EXCEPT !.score = RoundHE(SumC([i \in 1..Len(F) |-> IF F[i].muted THEN [F[i] EXCEPT !.score = "none"] ELSE F[i]], S, 1))]
      [] Variant = "round_each" ->     \* every contribution rounded to a whole percent before summing
           LET r == ImplResolve(F, S) IN
           IF r.shown = 0 THEN r ELSE
           [r EXCEPT !.score = LET RECURSIVE Each(_)
                                   Each(i) == IF i > Len(F) THEN 0 ELSE RoundHE(Contribution(F[i], S)) + Each(i + 1)
                               IN Each(1)]
      [] Variant = "blank_message_skipped" -> ImplResolve(F, S)   \* the deviation sits in Merge
      [] OTHER -> ImplResolve(F, S)

(* ---------- state machine ---------- *)
FB == {f \in [cat : Cats, prio : Prios, trig : Trigs, muted : Muteds, kind : Kinds, els : Elses,
              label : Labels, flds : Flds, correct : Corrects, valence : Valences,
              score : Scores, unscored : Unscoreds, msg : Msgs] : TRUE}
\* (a TRIGGERED feedback may carry an else_message too: it is simply not used, whatever the valence)

Init == fbs = <<>> /\ supp = {} /\ result = None

\* Suppressions are registered before feedback is created in the enumerated histories
\* (the registry is only consulted by resolve, so the relative order is immaterial).
\* SuppU is a sequence; canonical insertion order by index.
Suppress(i) == /\ result = None /\ fbs = <<>> /\ Cardinality(supp) < MaxSupp
               /\ \A j \in 1..Len(SuppU) : SuppU[j] \in supp => j < i
               /\ supp' = supp \cup {SuppU[i]} /\ UNCHANGED <<fbs, result>>
AddFeedback(f) == /\ result = None /\ Len(fbs) < MaxFb
                  /\ fbs' = Append(fbs, f) /\ UNCHANGED <<supp, result>>
Resolve == /\ result = None /\ Len(fbs) > 0
           /\ result' = IF Variant = "impl" THEN ImplResolve(fbs, supp) ELSE MutResolve(fbs, supp)
           /\ UNCHANGED <<fbs, supp>>

Next == (\E i \in 1..Len(SuppU) : Suppress(i)) \/ (\E f \in FB : AddFeedback(f)) \/ Resolve
Spec == Init /\ [][Next]_vars

Resolved == result # None
ShownIsBest == Resolved => ShownIsBestP(fbs, supp, result)
DefaultIffNone == Resolved => DefaultIffNoneP(fbs, supp, result)
CorrectIff == Resolved => CorrectIffP(fbs, supp, result)
ScoreIs == Resolved => ScoreIsP(fbs, supp, result)
\* derived clause of C02: never correct while a visible negative of a listed category fired
NoCorrectWithVisibleNegative ==
    Resolved /\ result.correct =>
        ~\E i \in EligIdx(fbs, supp) : fbs[i].cat \in {"syntax", "runtime", "algorithmic", "instructor", "specification"}
                                          /\ fbs[i].correct # "T"
\* design theorem: the contract rank and the code's by_priority agree
RankAgrees == \A i \in 1..Len(fbs) : Rank(fbs[i]) = ImplKey(fbs[i])

SuppSeq == LET RECURSIVE ToSeq(_)
               ToSeq(S) == IF S = {} THEN <<>> ELSE LET x == CHOOSE x \in S : TRUE IN <<x>> \o ToSeq(S \ {x})
           IN ToSeq(supp)
Export == Resolved => PrintT(<<"VP", ToJson([fbs |-> fbs, supp |-> SuppSeq, exp |-> result])>>)
=============================================================================
