SPECIFICATION Spec
CONSTANTS
  Features <- AllFeatures
  MaxCount = 3
  MaxThr = 3
  Places = {"top", "func", "else", "kwarg", "comp", "chain"}
  Flags = {}
INVARIANT ThresholdLaw
CONSTRAINT Export
CHECK_DEADLOCK FALSE
