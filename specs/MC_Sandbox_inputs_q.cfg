SPECIFICATION Spec
CONSTANTS
  EffTokens = {"in", "ina"}
  MaxEff = 2
  Modes = {"normal"}
  FnModes = {"normal"}
  MaxFns = 1
  Depth = 3
  InputOps = {"set_input"}
  Entries = {"run", "call"}
  TracerStyles = {"none"}
  Threadeds = {FALSE}
  Givens = {"empty", "blank"}
  Blockeds = {"none"}
  Flags = {}
INVARIANT Restored
INVARIANT OutputLedger
INVARIANT InputFifo
CONSTRAINT Export
CHECK_DEADLOCK FALSE
