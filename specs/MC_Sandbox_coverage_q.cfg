SPECIFICATION Spec
CONSTANTS
  EffTokens = {"pa", "im"}
  MaxEff = 1
  Modes = {"normal", "exc", "sysexit", "baseKbd", "syntax"}
  FnModes = {"normal", "exc"}
  MaxFns = 1
  Depth = 3
  InputOps = {}
  Entries = {"run", "call"}
  TracerStyles = {"coverage"}
  Threadeds = {FALSE}
  Givens = {}
  Blockeds = {"none"}
  Flags = {}
INVARIANT Restored
INVARIANT Contained
INVARIANT NoSpuriousFb
INVARIANT OutputLedger
INVARIANT InputFifo
CONSTRAINT Export
CHECK_DEADLOCK FALSE
