SPECIFICATION Spec
CONSTANTS
  Cats <- AllCats
  Prios <- AllPrios
  Trigs = {TRUE}
  Muteds = {FALSE, TRUE}
  Kinds = {"Mistake"}
  Elses = {FALSE}
  Labels = {"a"}
  Flds = {"f1"}
  Corrects = {"F"}
  Valences = {"neg"}
  Scores = {"none"}
  Unscoreds = {FALSE}
  Msgs = {"text"}
  SuppU <- SuppNone
  MaxFb = 2
  MaxSupp = 0
  Variant = "impl"
INVARIANT ShownIsBest
INVARIANT DefaultIffNone
INVARIANT CorrectIff
INVARIANT ScoreIs
INVARIANT NoCorrectWithVisibleNegative
INVARIANT RankAgrees
CONSTRAINT Export
CHECK_DEADLOCK FALSE
