SPECIFICATION Spec
CONSTANTS
  Design = "grader_bookkeeping"
  Kind = "catcher"
  MaxSteps = 2
  Inject = "base"
  Handback = "per_run"
  NextRun = "plain"
  ImportThread = "inline"
  TimeoutPolicy = "timeout_wins"
  defaultInitValue = defaultInitValue
INVARIANT ExcIsTimeout
INVARIANT ExcStable
INVARIANT OneRuntimeFb
INVARIANT StacksEmpty
INVARIANT NoCrash
INVARIANT NextRunClean
INVARIANT NextExcNone
CHECK_DEADLOCK FALSE
