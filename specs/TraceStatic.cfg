SPECIFICATION TSpec
CONSTANTS
  Features = {}
  MaxCount = 0
  MaxThr = 0
  Places = {}
  Flags = {}
CONSTRAINT Progress
POSTCONDITION Post
CHECK_DEADLOCK FALSE
