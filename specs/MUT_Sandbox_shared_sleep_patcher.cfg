SPECIFICATION Spec
CONSTANTS
  EffTokens = {"pa", "st", "im", "cb"}
  MaxEff = 1
  Modes = {"normal", "exc", "sysexit", "baseKbd", "recursion", "syntax"}
  FnModes = {"normal", "exc", "baseCustom"}
  MaxFns = 1
  Depth = 3
  InputOps = {}
  Entries = {"run", "call", "evaluate"}
  TracerStyles = {"none", "native", "calls"}
  Threadeds = {FALSE, TRUE}
  Givens = {}
  Blockeds = {"none"}
  Flags = {"shared_sleep_patcher"}
INVARIANT Restored
CHECK_DEADLOCK FALSE
