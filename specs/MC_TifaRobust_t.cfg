SPECIFICATION Spec
CONSTANTS
  Cells <- AllCells
  Ops = {"A", "C"}
  MaxOps = 5
  Progs = {"c", "x"}
  Flags = {}
INVARIANT RanIsDistinct
INVARIANT StartsClean
CONSTRAINT Export
CHECK_DEADLOCK FALSE
