SPECIFICATION Spec
CONSTANTS
  Scripts <- QuickScripts
  Subs = {"ok", "crash", "mathy", "mathmut"}
  MaxLen = 2
  ClearResets <- CodeClearResets
  Writes <- W
  Reads <- R
  SubWrites <- SW
  SubReads <- SR
INVARIANT PristineAtStart
CONSTRAINT Export
CHECK_DEADLOCK FALSE
