------------------------------- MODULE PyTable -------------------------------
(***************************************************************************)
(* CPython's behaviour for a binary operator or comparison on the core     *)
(* types, by rule: Py(op, l, r) is "err" (TypeError), "valuedep" (depends  *)
(* on the operand VALUES) or the class of the result.  Pure definitions,   *)
(* shared by TypeOps (one expression) and TypeRebind (histories).          *)
(***************************************************************************)
EXTENDS Integers, Sequences, FiniteSets
Num(t) == t \in {"int", "float", "bool"}
Seq_(t) == t \in {"list", "tuple"}
NumResult(op, l, r) == IF op = "/" THEN "float"
                       ELSE IF "float" \in {l, r} THEN "float" ELSE "int"
Py(op, l, r) ==
    CASE op = "**" /\ Num(l) /\ r = "float" -> "valuedep"    \* a negative base gives a complex result
      [] op \in {"+", "-", "*", "/", "//", "%", "**"} /\ Num(l) /\ Num(r) -> NumResult(op, l, r)
      [] op \in {"<<", ">>", "|", "^", "&"} /\ l \in {"int", "bool"} /\ r \in {"int", "bool"} ->
            (IF op \in {"|", "^", "&"} /\ l = "bool" /\ r = "bool" THEN "bool" ELSE "int")
      [] op = "+" /\ l = r /\ l \in {"str", "list", "tuple"} -> l
      [] op = "*" /\ l \in {"str", "list", "tuple"} /\ r \in {"int", "bool"} -> l
      [] op = "*" /\ r \in {"str", "list", "tuple"} /\ l \in {"int", "bool"} -> r
      [] op = "%" /\ l = "str" -> "valuedep"           \* string formatting: depends on the text
      [] op \in {"==", "!=", "is", "is not"} -> "bool"
      [] op \in {"<", "<=", ">", ">="} /\ Num(l) /\ Num(r) -> "bool"
      [] op \in {"<", "<=", ">", ">="} /\ l = r /\ l \in {"str", "list", "tuple"} -> "bool"
      [] op \in {"in", "not in"} /\ r \in {"list", "tuple"} -> "bool"
      [] op \in {"in", "not in"} /\ r = "str" /\ l = "str" -> "bool"
      [] OTHER -> "err"

=============================================================================
