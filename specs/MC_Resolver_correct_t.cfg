SPECIFICATION Spec
CONSTANTS
  Cats = {"runtime", "instructor", "complete"}
  Prios = {"none"}
  Trigs = {FALSE, TRUE}
  Muteds = {FALSE}
  Kinds = {"Mistake", "Compliment"}
  Elses = {FALSE}
  Labels = {"a"}
  Flds = {"f1"}
  Corrects = {"T", "F", "N"}
  Valences = {"neg"}
  Scores = {"none"}
  Unscoreds = {FALSE}
  Msgs = {"text", "empty"}
  SuppU <- SuppScore
  MaxFb = 3
  MaxSupp = 1
  Variant = "impl"
INVARIANT ShownIsBest
INVARIANT DefaultIffNone
INVARIANT CorrectIff
INVARIANT ScoreIs
INVARIANT NoCorrectWithVisibleNegative
INVARIANT RankAgrees
CONSTRAINT Export
CHECK_DEADLOCK FALSE
