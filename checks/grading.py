"""C13: history independence of grading against specs/Grading.tla."""
import json

from engine import tlc
from engine.core import shard_map
from engine.tlc import MachineryError


def run(prop, tier, seed, ctx):
    ctx.assumptions += ["script library of bind/grading.py (override, suppress, crash mid-script, formatter, mocks, sections, "
                        "pools, partial credit, groups, TIFA) x submissions; environment 'standard'; class hooks are "
                        "documented as persistent and excluded",
                        "baseline = the pair graded first in a fresh interpreter (subprocess)"]
    ctx.cov["rule"] = ("case = one history of (script, submission) gradings enumerated by TLC (all sequences up to the "
                       "length bound), executed in one forked process through Bundle.run_ics_bundle; every grading's "
                       "(label, title, message, correct, score, student output, error) is compared with the pair's "
                       "fresh-interpreter baseline; non-trivial = history of length >= 2; distinct = distinct history")
    cfgs = ["MC_Grading_q.cfg", "MC_Grading_types_q.cfg", "MC_Grading_scripts2_q.cfg", "MC_Grading_modules_q.cfg", "MC_Grading_cover_q.cfg", "MC_Grading_vpl_q.cfg", "MC_Grading_files_q.cfg", "MC_Grading_mocks_q.cfg", "MC_Grading_verify_q.cfg"] if tier == "quick" else ["MC_Grading_t.cfg", "MC_Grading_t3.cfg", "MC_Grading_types_q.cfg", "MC_Grading_types_t.cfg", "MC_Grading_scripts2_q.cfg", "MC_Grading_modules_q.cfg", "MC_Grading_cover_q.cfg", "MC_Grading_vpl_q.cfg", "MC_Grading_files_q.cfg", "MC_Grading_mocks_q.cfg", "MC_Grading_verify_q.cfg"]
    hists = {}
    for cfg in cfgs:
        res = tlc.run("MC_Grading", cfg, workers=4, timeout=600)
        tlc.require_ok(res, cfg)
        ctx.add_tlc(res, "all histories " + cfg)
        for r in res.records:
            hists[json.dumps(r["hist"])] = r
    # histories of EVERY length: with the contract's part of the state as TLC's VIEW the reachable set is finite (51 states)
    ures = tlc.run("MC_Grading", "MC_Grading_unbounded.cfg", workers=2, timeout=300)
    tlc.require_ok(ures, "MC_Grading_unbounded.cfg")
    ctx.add_tlc(ures, "PristineAtStart for histories of unbounded length over the whole script / submission library (VIEW <<dirty, leakSeen>>)")
    # a slot the model of the code does NOT reset: the interpreter's own module objects, which executed student code can
    # assign to.  TLC shows the contract failing on the model; the histories are replayed like all others.
    res = tlc.run("MC_Grading", "MC_Grading_realmods_q.cfg", workers=1, timeout=600, cont=True)
    ctx.add_tlc(res, "all histories MC_Grading_realmods_q.cfg (submission assigning to a real module)")
    if [e for e in res.errors if "violated" not in e and "behavior" not in e.lower()] or not res.records:
        raise MachineryError("TLC error on MC_Grading_realmods_q.cfg: %s" % res.errors[:3])
    if "PristineAtStart" in res.violated:
        ctx.violation("C13|model|real_modules", "TLC: PristineAtStart fails on the model of the code - nothing resets the real module "
                      "objects a submission assigned to (history realmut, then mathy)", {"cfg": "MC_Grading_realmods_q.cfg"})
    for r in res.records:
        hists[json.dumps(r["hist"])] = r
    # deep random histories (tlc -simulate): six gradings drawn from ALL scripts and submissions of the library
    num = 10 if tier == "quick" else 400
    sres = tlc.run("MC_Grading", "SIM_Grading_deep.cfg", workers=4, timeout=600, simulate="num=%d" % num, extra=["-depth", "8", "-seed", str(1000 + seed)])
    tlc.require_ok(sres, "simulation SIM_Grading_deep.cfg")
    ctx.add_tlc(sres, "simulation (%d histories of 6 gradings) SIM_Grading_deep.cfg" % (4 * num))
    deep = [r for r in sres.records if len(r["hist"]) == 6]
    if len(deep) < num:
        raise MachineryError("simulation exported only %d complete histories" % len(deep))
    for r in deep:
        hists[json.dumps(r["hist"])] = r
    recs = list(hists.values())
    pairs = sorted({tuple(p) for r in recs for p in r["hist"]})
    base = dict(shard_map("bind.grading", "baseline_chunk", [list(p) for p in pairs], procs=12, chunk=1))
    baselines = {json.dumps(list(k)): v for k, v in base.items()}
    ctx.notes.append("%d fresh-interpreter baselines" % len(baselines))
    cases = list(enumerate(recs))
    mism = shard_map("bind.grading", "history_chunk", cases, extra={"baselines": baselines})
    ctx.cov["replayed_cases"] += len(cases)
    ctx.cov["traces_validated_against_impl"] += len(cases)
    ctx.count(len(cases), (json.dumps(r["hist"]) for r in recs if len(r["hist"]) >= 2))
    ctx.sample({"kind": "history", "gradings": recs[len(recs) // 2]["hist"]})
    ctx.cov["exhaustive"] = True
    for m in mism:
        if m["kind"] == "harness-crash":
            raise MachineryError("history %s crashed the harness: %s" % (m["hist"], m["detail"]))
        culprit = sorted({p[0] for p in m["previous"]})
        if "real_modules" in m["dirty_at_start"] and any(p[1] in ("realmut", "modsetT") for p in m["previous"]):
            ctx.violation("C13|real-module-mutated-by-earlier-submission", "grading %s at position %d of history %s differs from its "
                          "fresh-interpreter result in %s: observed %s baseline %s" % (m["pair"], m["position"], m["hist"], m["fields"],
                          json.dumps(m["observed"])[:200], json.dumps(m["baseline"])[:200]), m)
            continue
        ctx.violation("C13|%s|after=%s" % ("+".join(m["fields"]), "+".join(culprit) or "-"),
                      "grading %s at position %d of history %s differs from its fresh-interpreter result in %s: observed %s baseline %s (slots dirty at start: %s)" % (
                          m["pair"], m["position"], m["hist"], m["fields"], json.dumps(m["observed"])[:200],
                          json.dumps(m["baseline"])[:200], m["dirty_at_start"]), m)
    mres = tlc.run("MC_Grading", "MUT_Grading_pools_leak.cfg", workers=2, timeout=300)
    if "PristineAtStart" not in mres.violated:
        raise MachineryError("mutant pools_leak did not violate PristineAtStart")
    ctx.notes.append("self-test: a clear() that forgets a slot (pools) violates PristineAtStart")
    mres = tlc.run("MC_Grading", "MUT_Grading_student_modules_stay.cfg", workers=2, timeout=300)
    if "PristineAtStart" not in mres.violated:
        raise MachineryError("mutant student_modules_stay did not violate PristineAtStart")
    kres = tlc.run("MC_Grading", "MUT_Grading_mock_tables_stay.cfg", workers=2, timeout=300)
    if "PristineAtStart" not in kres.violated:
        raise MachineryError("mutant mock_tables_stay did not violate PristineAtStart")
    gres = tlc.run("MC_Grading", "MUT_Grading_gs_maximum_stays.cfg", workers=2, timeout=300)
    if "PristineAtStart" not in gres.violated:
        raise MachineryError("mutant gs_maximum_stays did not violate PristineAtStart")
    mres = tlc.run("MC_Grading", "MUT_Grading_vpl_maximum_stays.cfg", workers=2, timeout=300)
    if "PristineAtStart" not in mres.violated:
        raise MachineryError("mutant vpl_maximum_stays did not violate PristineAtStart")
    mres = tlc.run("MC_Grading", "MUT_Grading_coverage_accumulates.cfg", workers=2, timeout=300)
    if "PristineAtStart" not in mres.violated:
        raise MachineryError("mutant coverage_accumulates did not violate PristineAtStart")
    mres = tlc.run("MC_Grading", "MUT_Grading_modules_stay.cfg", workers=2, timeout=300)
    if "PristineAtStart" not in mres.violated:
        raise MachineryError("mutant modules_stay did not violate PristineAtStart")
    ctx.notes.append("self-test: a module table that keeps what student code imported first violates PristineAtStart")
    mres = tlc.run("MC_Grading", "MUT_Grading_shared_tables.cfg", workers=2, timeout=300)
    if "PristineAtStart" not in mres.violated:
        raise MachineryError("mutant shared_tables did not violate PristineAtStart")
    ctx.notes.append("self-test: method tables shared between type values (written by a submission's attribute assignment) violate PristineAtStart")


def replay(prop, rep):
    from bind import grading as B
    from engine.core import setup_repo_path
    setup_repo_path()
    r = rep["replay"]
    res = B.run_history([tuple(x) for x in r["hist"]])
    base = B.baseline(r["pair"])
    got = res[r["position"] - 1]["result"]
    diff = [k for k in B.KEYS if got.get(k) != base.get(k)]
    print(json.dumps({"diff": diff, "observed": {k: got.get(k) for k in diff}, "baseline": {k: base.get(k) for k in diff}}, indent=1))
    return 1 if diff else 0
