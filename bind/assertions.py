"""Binding of specs/Assertions.tla: concretise abstract values, run the real assert_* functions (C07)."""

PY = {"i1": "1", "i2": "2", "i0": "0", "bT": "True", "bF": "False", "f1": "1.0", "f1c": "1.0005", "f1f": "1.002",
      "f2": "2.0", "abc": "'abc'", "ABC": "'ABC'", "abc!": "'abc!'", "abd": "'abd'", "empty": "''", "none": "None",
      "L12": "[1, 2]", "L12c": "[1, 2.0005]", "L1f2": "[1.0, 2]", "L0": "[]", "T12": "(1, 2)",
      "Labc": "['abc', 'abd']", "LABC": "['ABC', 'abd']", "D_A1": "{'ABC': 1}", "D_a2": "{'abc': 2}", "D_a1": "{'abc': 1}",
      "huge": "10**400", "T1a": "(1, 'abc')", "T123": "(1, 2, 3)", "L1a": "[1, 'abc']", "S1": "{1}", "S2": "{2}", "S12": "{1, 2}", "Sf": "{1.0, 1.0005}",
      "Sg": "{1.0, 2.0}", "nan": "float('nan')", "inf": "float('inf')",
      "Brepr": "Unprintable()", "Vobj": "Holder(0)", "DC12": "Pt(1, 2)", "DC13": "Pt(1, 3)", "DC12c": "Pt(1, 2.0005)",
      "R12": "reversed([2, 1])", "M12": "map(int, ['1', '2'])"}
FN = {"equal": "assert_equal", "not_equal": "assert_not_equal", "less": "assert_less", "less_equal": "assert_less_equal",
      "greater": "assert_greater", "greater_equal": "assert_greater_equal", "in": "assert_in", "not_in": "assert_not_in",
      "is_none": "assert_is_none", "is_not_none": "assert_is_not_none", "true": "assert_true", "false": "assert_false",
      "length_equal": "assert_length_equal", "length_not_equal": "assert_length_not_equal",
      "length_less": "assert_length_less", "length_greater_equal": "assert_length_greater_equal", "is": "assert_is",
      "is_not": "assert_is_not", "is_instance": "assert_is_instance", "not_is_instance": "assert_not_is_instance",
      "regex": "assert_regex", "not_regex": "assert_not_regex", "output": "assert_output", "not_output": "assert_not_output",
      "output_contains": "assert_output_contains", "not_output_contains": "assert_not_output_contains",
      "type": "assert_type", "not_type": "assert_not_type",
      "output_exact": "assert_output", "not_output_exact": "assert_not_output"}
NEG = {"type": "not_type", "not_type": "type"}
SAY = {"o:abcnn": "print('abc')\n    print()", "o:abc": "print('abc')", "o:ABC!": "print('ABC!')", "o:abd": "print('abd')", "o:none": "pass", "o:two": "print('abd')\n    print('abc')"}
OUT_TEXT = {"abc": "abc", "ABC": "ABC", "abc!": "abc!", "abd": "abd", "empty": "", "two": "abc\nabd"}
OUT_FAMILY = {"output", "not_output", "output_contains", "not_output_contains", "output_exact", "not_output_exact"}
EXTRA = {"t:int": int, "t:float": float, "t:str": str, "t:list": list, "t:bool": bool, "t:tuple": tuple,
         "re:ab.": "ab.", "re:^b": "^b", "re:z": "z", "re:[0-9]": "[0-9]",
         "t:dict": dict, "s:int": "int", "s:str": "str", "s:list": "list", "g:list_int": list[int], "sg:list_int": "list[int]",
         "g:list_str": list[str], "lit:list_int": [int], "tt:int_int": (int, int), "sg:tuple_int_str": "tuple[int, str]",
         "sg:dict_str_int": "dict[str, int]"}
UNARY = {"is_none", "is_not_none", "true", "false"}


# ... and an object that has an attribute literally named `value` (an enum member, a card, a node): it is not its value
HOLDER = "class Holder:\n    def __init__(self, value):\n        self.value = value\n    def __repr__(self):\n        return 'Holder(%r)' % self.value\n"
exec(HOLDER)
# ... and instances of a dataclass (what a student's function returns for a record)
DATACLASS = "from dataclasses import dataclass\n@dataclass\nclass Pt:\n    x: int\n    y: float\n"
exec(DATACLASS)
UNPRINTABLE = "class Unprintable:\n    def __repr__(self):\n        raise ValueError('no text for you')\n    __str__ = __repr__\n"
exec(UNPRINTABLE)          # the instructor-side (raw) operand is an instance of the same class text


def student_source():
    lines = [UNPRINTABLE, HOLDER, DATACLASS]
    for i, (name, lit) in enumerate(sorted(PY.items())):
        lines.append("def get_%d():\n    return %s" % (i, lit))
    lines.append("def raises():\n    raise ValueError('student failure')")
    lines.append("def exits():\n    import sys\n    sys.exit(3)")
    lines.append("def ident(x):\n    return x")
    for i, (name, body) in enumerate(sorted(SAY.items())):
        lines.append("def say_%d():\n    %s" % (i, body))
    lines.append("def ut(x):\n    if x % 3 == 0:\n        return x\n    if x % 3 == 1:\n        return x + 1\n    raise ValueError('bad')")
    return "\n".join(lines) + "\n"


GETTER = {name: "get_%d" % i for i, name in enumerate(sorted(PY))}
SAYER = {name: "say_%d" % i for i, name in enumerate(sorted(SAY))}


class World:
    def __init__(self, html=False):
        from pedal.core.commands import clear_report, contextualize_report
        from pedal.sandbox import commands as S
        import pedal.assertions  # noqa
        clear_report()
        contextualize_report(student_source())
        import os as _os
        if _os.environ.get("VERIF_FORCE_HTML") or html:
            # (every other chunk of cells) the HTML formatter of the web environments: wording must not change verdicts
            from pedal.core.report import MAIN_REPORT
            from pedal.core.formatting import HtmlFormatter
            MAIN_REPORT.set_formatter(HtmlFormatter(MAIN_REPORT))
        S.run()
        self.S = S

    def value(self, name, wrap):
        if name == "err":
            return self.S.call("raises")
        if name == "errx":                      # a student function that ends the interpreter instead of returning
            return self.S.call("exits")
        if name in EXTRA:
            if name.startswith("re:") and wrap == "proxy":
                # a pattern the student's own code produced (e.g. a function that builds a regular expression)
                return self.S.call("ident", EXTRA[name])
            return EXTRA[name]          # types are instructor-side values, never proxied
        if wrap == "proxy":
            return self.S.call(GETTER[name])
        if name.startswith("DC"):
            # the instructor holds an instance of the STUDENT's class (an equal-looking class of her own would simply be
            # another class to Python): the plain object behind a call result
            from pedal.sandbox.result import unwrap_value
            return unwrap_value(self.S.call(GETTER[name]))
        return eval(PY[name])


# the documented presentation keywords of every runtime assertion: they change the wording, never the verdict
PRESENTATION = {"explanation": {"explanation": "because the exercise says so"}, "context": {"context": "While checking your answer"},
                "assertion": {"assertion": "your answer to match mine"},
                # documented options of the equality assertions that ask for the DEFAULT behaviour explicitly
                "delta_none": {"delta": None}, "exact_false": {"exact_strings": False}}


def run_case(w, rec, wl, wr, kw=None):
    from pedal.core.report import MAIN_REPORT as R
    import pedal.assertions.runtime as RT
    import functools
    fn = getattr(RT, FN[rec["a"]])
    if kw and kw != "inblock":
        fn = functools.partial(fn, **PRESENTATION[kw])
    if rec["a"].endswith("_exact"):
        fn = functools.partial(fn, exact_strings=True)
    if rec["a"] in OUT_FAMILY:
        # the execution is always the result of a real call(); the expected text is an instructor-side string
        left = w.S.call("raises") if rec["l"] == "err" else w.S.call("exits") if rec["l"] == "errx" else w.S.call(SAYER[rec["l"]])
        n0 = len(R.feedback)
        try:
            if kw == "inblock" and rec["l"] not in ("err", "errx"):
                # the assertion is made inside an open block of commands, after a LATER execution of the block printed
                # something else: it is still about what `left` printed
                from pedal.sandbox.commands import CommandBlock
                with CommandBlock():
                    left = w.S.call(SAYER[rec["l"]])
                    w.S.call(SAYER["o:ABC!" if rec["l"] != "o:ABC!" else "o:two"])
                    fb = fn(left, OUT_TEXT[rec["r"]])
            else:
                fb = fn(left, OUT_TEXT[rec["r"]])
        except Exception as e:
            return {"observed": "raised", "detail": "%s: %s" % (type(e).__name__, e)}
        failing = bool(fb) and any(f is fb for f in R.feedback[n0:])
        return {"observed": "fails" if failing else "silent", "status": getattr(fb, "_status", None), "bool": bool(fb)}
    left = w.value(rec["l"], wl)
    n0 = len(R.feedback)
    try:
        if rec["a"] in UNARY:
            fb = fn(left)
        else:
            right = w.value(rec["r"], wr)
            fb = fn(left, right)
    except Exception as e:
        return {"observed": "raised", "detail": "%s: %s" % (type(e).__name__, e)}
    failing = bool(fb) and any(f is fb for f in R.feedback[n0:])
    status = getattr(fb, "_status", None)
    return {"observed": "fails" if failing else "silent", "status": status, "bool": bool(fb)}


def replay_chunk(cases, extra):
    from engine.core import setup_repo_path
    setup_repo_path()
    from pedal.core.report import MAIN_REPORT as R
    w = World(html=bool(cases) and (cases[0][0] // 300) % 2 == 1)
    out = []
    n = 0
    for idx, rec in cases:
        if rec["kind"] == "assert":
            wraps = [("raw", "raw"), ("proxy", "raw"), ("raw", "proxy"), ("proxy", "proxy")]
            if rec["a"] in UNARY:
                wraps = [("raw", "raw"), ("proxy", "raw")]
            if rec["a"] in OUT_FAMILY:
                wraps = [("proxy", "raw")]
            # one of the wrappings is repeated with a presentation keyword (which one rotates with the cell)
            extra = [(wraps[n % len(wraps)][0], wraps[n % len(wraps)][1], ["explanation", "context", "assertion"][n % 3])]
            if rec["a"] in OUT_FAMILY:
                extra.append(("proxy", "raw", "inblock"))
            if rec["a"] in ("equal", "not_equal"):
                extra.append((wraps[(n + 1) % len(wraps)][0], wraps[(n + 1) % len(wraps)][1], ["delta_none", "exact_false"][n % 2]))
            for wl, wr, kw in [(a, b, None) for a, b in wraps] + extra:
                if rec["l"] in ("err", "errx") and wl == "raw" or (rec["a"] not in UNARY and rec["r"] in ("err", "errx") and wr == "raw"):
                    continue
                o = run_case(w, rec, wl, wr, kw)
                if kw:
                    o["keyword"] = kw
                if rec["verdict"] == "any":
                    # unspecified cell: the call must still produce a verdict; where the operands are evaluable
                    # (holds = "X") the assertion and its negation must disagree
                    bad = o["observed"] not in ("silent", "fails")
                    if not bad and rec["holds"] == "X" and rec["a"] in NEG:
                        o2 = run_case(w, dict(rec, a=NEG[rec["a"]]), wl, wr)
                        bad = o2["observed"] == o["observed"]
                        o = dict(o, negation=o2["observed"])
                    if bad:
                        out.append({"case": rec, "wrap": [wl, wr], "observed": o, "expected": "any (complement)", "holds": rec["holds"]})
                    continue
                if o["observed"] != rec["verdict"]:
                    out.append({"case": rec, "wrap": [wl, wr], "observed": o, "expected": rec["verdict"], "holds": rec["holds"]})
        else:
            o = run_unit_test(w, rec)
            if o["success"] != (rec["verdict"] == "success") or o["count"] != rec["passed"]:
                out.append({"case": rec, "wrap": ["-", "-"], "observed": o, "expected": rec["verdict"], "holds": "-"})
        n += 1
        if n % 200 == 0:
            # keep the report from growing without bound
            del R.feedback[:]
            del R.ignored_feedback[:]
    return out


def run_unit_test(w, rec):
    from pedal.assertions.commands import unit_test
    from pedal.core.report import MAIN_REPORT as R
    off = {"pass": 0, "wrong": 1, "raises": 2}
    tests = []
    for i, c in enumerate(rec["cases"]):
        x = 3 * (i + 1) + off[c]
        tests.append(((x,), x))
    before = {id(f) for f in R.feedback} | {id(f) for f in R.ignored_feedback}
    try:
        res = unit_test("ut", *tests)
    except Exception as e:
        return {"success": None, "count": None, "detail": "%s: %s" % (type(e).__name__, e)}
    groups = [f for f in (R.feedback + R.ignored_feedback) if type(f).__name__ == "unit_test" and id(f) not in before]
    g = groups[-1] if groups else None
    count = g.fields.get("success_count") if g is not None else None
    return {"success": bool(res), "count": count}
