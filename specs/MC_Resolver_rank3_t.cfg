SPECIFICATION Spec
CONSTANTS
  Cats = {"syntax", "instructor", "runtime", "uncategorized", "style"}
  Prios = {"none", "high", "low", "lowest", "runtime"}
  Trigs = {TRUE}
  Muteds = {FALSE}
  Kinds = {"Mistake"}
  Elses = {FALSE}
  Labels = {"a"}
  Flds = {"f1"}
  Corrects = {"F"}
  Valences = {"neg"}
  Scores = {"none"}
  Unscoreds = {FALSE}
  Msgs = {"text"}
  SuppU <- SuppNone
  MaxFb = 3
  MaxSupp = 0
  Variant = "impl"
INVARIANT ShownIsBest
INVARIANT DefaultIffNone
INVARIANT CorrectIff
INVARIANT ScoreIs
INVARIANT NoCorrectWithVisibleNegative
INVARIANT RankAgrees
CONSTRAINT Export
CHECK_DEADLOCK FALSE
