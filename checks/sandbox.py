"""C04 / C05 / C15: the exec sandbox against specs/Sandbox.tla (behaviour replay + mutant self-tests)."""
import json

from engine import tlc
from engine.core import shard_map
from engine.tlc import MachineryError
from bind.sandbox import PROP_KEYS

CFGS = {("C04", "quick"): ["MC_Sandbox_modes_q.cfg", "MC_Sandbox_modes2_q.cfg", "MC_Sandbox_realio_q.cfg"], ("C05", "quick"): ["MC_Sandbox_modes_q.cfg", "MC_Sandbox_tracer_q.cfg", "MC_Sandbox_blocked_q.cfg", "MC_Sandbox_blockednest_q.cfg", "MC_Sandbox_coverage_q.cfg"],
        ("C15", "quick"): ["MC_Sandbox_ledger_q.cfg", "MC_Sandbox_inputs_q.cfg", "MC_Sandbox_requeue_q.cfg", "MC_Sandbox_saved_q.cfg", "MC_Sandbox_realio_q.cfg"],
        ("C04", "thorough"): ["MC_Sandbox_modes_q.cfg", "MC_Sandbox_modes2_q.cfg", "MC_Sandbox_realio_q.cfg", "MC_Sandbox_modes_t.cfg"],
        ("C05", "thorough"): ["MC_Sandbox_modes_q.cfg", "MC_Sandbox_modes2_q.cfg", "MC_Sandbox_tracer_q.cfg", "MC_Sandbox_blocked_q.cfg", "MC_Sandbox_blockednest_q.cfg", "MC_Sandbox_coverage_q.cfg", "MC_Sandbox_modes_t.cfg"],
        ("C15", "thorough"): ["MC_Sandbox_ledger_q.cfg", "MC_Sandbox_inputs_q.cfg", "MC_Sandbox_requeue_q.cfg", "MC_Sandbox_saved_q.cfg", "MC_Sandbox_realio_q.cfg", "MC_Sandbox_ledger_t.cfg"]}
SIMS = {("C04", "quick"): [("SIM_Sandbox_modes_deep.cfg", 50, 10)], ("C05", "quick"): [("SIM_Sandbox_modes_deep.cfg", 50, 10), ("SIM_Sandbox_deep.cfg", 75, 12)],
        ("C15", "quick"): [("SIM_Sandbox_deep.cfg", 150, 12)],
        ("C04", "thorough"): [("SIM_Sandbox_modes_deep.cfg", 1500, 10)], ("C05", "thorough"): [("SIM_Sandbox_modes_deep.cfg", 1500, 10), ("SIM_Sandbox_deep.cfg", 2500, 12)],
        ("C15", "thorough"): [("SIM_Sandbox_deep.cfg", 6000, 12)]}
MUTANTS = {"C04": [("MUT_Sandbox_fragile_capture.cfg", "Contained")],
           "C05": [("MUT_Sandbox_no_base_handler.cfg", "Restored"), ("MUT_Sandbox_tracer_conditional_restore.cfg", "Restored"),
                   ("MUT_Sandbox_tracer_not_reentrant.cfg", "Restored"),
                   ("MUT_Sandbox_shared_sleep_patcher.cfg", "Restored")],
           "C15": [("MUT_Sandbox_phantom_line.cfg", "OutputLedger"), ("MUT_Sandbox_lifo_inputs.cfg", "InputFifo"),
                   ("MUT_Sandbox_falsy_inputs_ignored.cfg", "InputFifo"),
                   ("MUT_Sandbox_closed_stream_loses_output.cfg", "OutputLedger")]}


def _without_c(v):
    """The expected ledger with everything written through the saved stream reference ('c') taken out."""
    if isinstance(v, list):
        out = [_without_c(x) for x in v if x != "c"]
        return out
    if isinstance(v, dict):
        return {k: _without_c(x) for k, x in v.items()}
    return v


def only_saved_reference_lost(m):
    f = m.get("file") or {}
    progs = [f.get("top", {})] + list(f.get("fns", []))
    if not any("wsv" in p.get("effs", []) for p in progs):
        return False
    exp, obs = m.get("expected", {}), m.get("observed", {})
    # what was observed is what was expected with some of the 'c' writes missing, everything else in place
    for k in ("raw", "lines", "ctxs"):
        if k in exp and k in obs:
            e, o = _without_c(exp[k]), _without_c(obs[k])
            if k == "lines":
                e, o = [x for x in e if x], [x for x in o if x]
            if json.loads(json.dumps(e, sort_keys=True)) != json.loads(json.dumps(o, sort_keys=True)):
                return False
    if json.dumps(obs.get("raw")).count('"c"') >= json.dumps(exp.get("raw")).count('"c"'):
        return False
    return True


def key_of(prop, m, mine):
    if prop == "C15" and only_saved_reference_lost(m):
        return "C15|written-through-saved-stdout-reference-lost"
    return "%s|%s|%s|%s" % (prop, "+".join(sorted(mine)), m["action"]["op"], m.get("mode", "-"))


def run(prop, tier, seed, ctx):
    ctx.assumptions += ["contract = invariants of specs/Sandbox.tla over ghost variables; abstract programs are "
                        "concretised by bind/sandbox.py (one statement per effect / termination mode)",
                        "internal fault = harness makes pedal's runtime_error construction raise for one marker class",
                        "location is checked only for failures raised on a student line"]
    ctx.cov["rule"] = ("case = one behaviour (student file + sequence of run/call/evaluate/clear_output/set_input/"
                       "queue_input/clear_input) exported by TLC, replayed on the real sandbox with the projected state "
                       "(process globals, stacks, ledger, contexts, input queue, exception, runtime feedbacks) compared "
                       "after every call; non-trivial = some execution prints, reads input or does not end normally; "
                       "distinct = distinct (file, action sequence)")
    for cfg in CFGS[(prop, tier)]:
        res = tlc.run("Sandbox", cfg, workers=8, timeout=1800)
        tlc.require_ok(res, cfg)
        ctx.add_tlc(res, "exhaustive " + cfg)
        cases = list(enumerate(res.records))
        mism = shard_map("bind.sandbox", "replay_chunk", cases)
        ctx.cov["replayed_cases"] += len(cases)
        ctx.cov["traces_validated_against_impl"] += len(cases)

        def nontriv(r):
            f = r["file"]
            return bool(f["top"]["effs"]) or f["top"]["mode"] != "normal" or any(x["effs"] or x["mode"] != "normal" for x in f["fns"])
        ctx.count(len(cases), (json.dumps([r["file"], [h["a"] for h in r["hist"]]], sort_keys=True) for _, r in cases if nontriv(r)))
        mid = res.records[len(res.records) // 2]
        ctx.sample({"kind": "behaviour", "cfg": cfg, "file": mid["file"], "actions": [h["a"] for h in mid["hist"]]})
        for m in mism:
            mine = [f for f in m["fields"] if f in PROP_KEYS[prop]]
            if not mine:
                continue
            ctx.violation(key_of(prop, m, mine), "after step %d (%s, mode %s) real state differs from the specification in %s: observed %s expected %s" % (
                m["step"], m["action"]["op"], m.get("mode"), mine,
                json.dumps({k: m["observed"].get(k) for k in mine + ["error"]}, default=repr)[:300],
                json.dumps({k: m["expected"].get(k) for k in mine}, default=repr)[:200]), m)
    ctx.cov["exhaustive"] = True
    # ---- deep random behaviours (tlc -simulate): histories three times as long as the exhaustive bound, every
    # invariant evaluated by TLC along them, each behaviour replayed call by call like the exhaustive ones
    for cfg, num, depth in SIMS[(prop, tier)]:
        res = tlc.run("Sandbox", cfg, workers=4, timeout=900, simulate="num=%d" % num, extra=["-depth", str(depth), "-seed", str(1000 + seed)])
        tlc.require_ok(res, "simulation " + cfg)
        ctx.add_tlc(res, "simulation (%d behaviours of depth <= %d) %s" % (4 * num, depth, cfg))
        uniq = list({json.dumps(r, sort_keys=True): r for r in res.records}.values())
        if len(uniq) < num:
            raise MachineryError("simulation of %s exported only %d behaviours" % (cfg, len(uniq)))
        cases = list(enumerate(uniq))
        mism = shard_map("bind.sandbox", "replay_chunk", cases)
        ctx.cov["replayed_cases"] += len(cases)
        ctx.cov["traces_validated_against_impl"] += len(cases)
        ctx.count(len(cases), (json.dumps([r["file"], [h["a"] for h in r["hist"]]], sort_keys=True) for _, r in cases))
        ctx.sample({"kind": "simulated behaviour", "cfg": cfg, "file": uniq[0]["file"], "actions": [h["a"] for h in uniq[0]["hist"]]})
        for m in mism:
            mine = [f for f in m["fields"] if f in PROP_KEYS[prop]]
            if mine:
                ctx.violation(key_of(prop, m, mine), "simulated behaviour, after step %d (%s, mode %s) real state differs from the specification in %s: observed %s expected %s" % (
                    m["step"], m["action"]["op"], m.get("mode", "-"), mine, json.dumps({k: m["observed"].get(k) for k in mine})[:300],
                    json.dumps({k: m["expected"].get(k) for k in mine})[:300]), m)
    if prop in ("C05", "C15"):
        # every sandbox execution of the repository's own test-suite, recorded through the guarded hooks
        from engine.suite import record_suite
        led = record_suite()["ledger"]
        if len(led) < 50:
            raise MachineryError("only %d sandbox traces recorded from the test-suite" % len(led))
        evs = [[{k: v for k, v in e.items() if k != "test"} for e in t["events"]] for t in led]
        acc, rej, tres = tlc.validate_traces("TraceLedger", "TraceLedger.cfg", evs, timeout=600)
        ctx.add_tlc(tres, "ledger / stack contract on %d sandboxes used by the repository's own test-suite" % len(led))
        ctx.cov["traces_validated_against_impl"] += len(led)
        # binding self-test: a recorded field that is corrupted must be rejected
        import copy
        bad = [copy.deepcopy(e) for e in evs if any(x.get("share") for x in e)][:30]
        for e in bad:
            x = [y for y in e if y.get("share")][0]
            x["raw"] = x["raw"] + ["!"]
        a2, r2, _ = tlc.validate_traces("TraceLedger", "TraceLedger.cfg", bad, timeout=300)
        if bad and a2:
            raise MachineryError("binding self-test: %d corrupted suite traces accepted" % a2)
        ctx.notes.append("self-test: %d corrupted suite traces rejected" % len(bad))
        for tid, pos, mask in rej:
            m = int(mask)
            ev = led[tid - 1]["events"][pos - 1]
            if prop == "C15" and m & 3:
                ctx.violation("C15|suite|%s" % ("raw" if m & 1 else "lines"), "execution %d of a sandbox in %s: ledger clause fails" % (pos, ev.get("test")), led[tid - 1])
            if prop == "C05" and m & 4:
                ctx.violation("C05|suite|stacks", "execution %d of a sandbox in %s leaves patches=%s stdouts=%s" % (pos, ev.get("test"), ev.get("patches"), ev.get("stdouts")), led[tid - 1])
    for mcfg, inv in MUTANTS[prop]:
        mres = tlc.run("Sandbox", mcfg, workers=8, timeout=600)
        if inv not in mres.violated:
            raise MachineryError("mutant %s did not violate %s" % (mcfg, inv))
        ctx.notes.append("self-test: mutant %s violates %s" % (mcfg, inv))


def replay(prop, rep):
    from bind import sandbox as B
    from engine.core import setup_repo_path
    setup_repo_path()
    r = rep["replay"]
    print(json.dumps(r, indent=1, default=repr)[:3000])
    return 1
