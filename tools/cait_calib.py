#!/venv/bin/python
import sys; sys.path.insert(0,'/verif')
from engine import tlc
from engine.core import shard_map, setup_repo_path
setup_repo_path()
from bind import cait as B
from collections import Counter
pairs=[(p,s) for p in B.PATTERNS for s in B.PROGRAMS]
recs=shard_map("bind.cait","record_chunk",pairs)
ws=[]; src=[]
errs=Counter()
spurious=[]
for r in recs:
    if r['n']<0: errs[r['error'][:80]]+=1
    if r['n']>0 and B.absent_content(r['pattern'], r['program']): spurious.append(r)
    for w in r['witnesses']:
        ws.append({k:w[k] for k in ('P','S','m','sym','exps')}); src.append(r)
print('pairs',len(pairs),'matches',len(ws),'errors',dict(errs),'spurious',len(spurious))
for r in spurious[:8]: print('  SPURIOUS', repr(r['pattern']), '<<>>', repr(r['program'])[:100])
acc,rej,res=tlc.validate_traces("TraceCait","TraceCait.cfg",ws,timeout=900)
print('accepted',acc,'rejected',len(rej), res.wall_s)
c=Counter(); ex={}
for tid,pos,mask in rej:
    c[mask]+=1; ex.setdefault(mask,src[tid-1])
for mask,n in c.most_common():
    print(mask,n,repr(ex[mask]['pattern']),'<<>>',repr(ex[mask]['program'])[:120])
