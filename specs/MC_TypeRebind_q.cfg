SPECIFICATION Spec
CONSTANTS
  Types = {"int", "float", "str", "list", "tuple"}
  BinOps = {"+", "-", "*", "/", "//", "%", "**", "<<", ">>", "|", "^", "&", "@"}
  MaxRebinds = 1
  UseK = FALSE
INVARIANT TypeOK
PROPERTY StopsAtError
CONSTRAINT Export
CHECK_DEADLOCK FALSE
