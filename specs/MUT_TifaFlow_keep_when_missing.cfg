SPECIFICATION Spec
CONSTANTS
  Vars = {"x", "y"}
  MaxTok = 6
  MaxDepth = 2
  Types = {"i"}
  CondVars = {}
  Copies = FALSE
  Flags = {"keep_when_missing"}
INVARIANT ReadsExact
INVARIANT UnusedExact
CHECK_DEADLOCK FALSE
