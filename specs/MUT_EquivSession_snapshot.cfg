SPECIFICATION Spec
CONSTANTS
  MaxOps = 3
  Threadeds = {FALSE, TRUE}
  Flags = {"snapshot_namespace"}
INVARIANT SameReturn
INVARIANT SameGlobals
CHECK_DEADLOCK FALSE
