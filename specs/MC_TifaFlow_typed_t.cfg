SPECIFICATION Spec
CONSTANTS
  Vars = {"x"}
  MaxTok = 9
  MaxDepth = 3
  Types = {"i", "s"}
  CondVars = {"x"}
  Copies = FALSE
  Flags = {}
INVARIANT ReadsExact
INVARIANT UnusedExact
CONSTRAINT Export
CHECK_DEADLOCK FALSE
