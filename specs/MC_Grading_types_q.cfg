SPECIFICATION Spec
CONSTANTS
  Scripts = {"plain", "tifa_types"}
  Subs = {"ok", "attrassign", "attrlit", "methodcall"}
  MaxLen = 3
  ClearResets <- CodeClearResets
  Writes <- W
  Reads <- R
  SubWrites <- SW
  SubReads <- SR
INVARIANT PristineAtStart
CONSTRAINT Export
CHECK_DEADLOCK FALSE
