SPECIFICATION Spec
CONSTANTS
  Cats = {"runtime", "syntax", "none"}
  Prios = {"none"}
  Trigs = {FALSE, TRUE}
  Muteds = {FALSE}
  Kinds = {"Mistake", "Compliment"}
  Elses = {FALSE, TRUE}
  Labels = {"a", "B"}
  Flds = {"f1", "f2"}
  Corrects = {"F"}
  Valences = {"neg"}
  Scores = {"none"}
  Unscoreds = {FALSE}
  Msgs = {"text"}
  SuppU <- SuppBasic
  MaxFb = 2
  MaxSupp = 1
  Variant = "impl"
INVARIANT ShownIsBest
INVARIANT DefaultIffNone
INVARIANT CorrectIff
INVARIANT ScoreIs
INVARIANT NoCorrectWithVisibleNegative
INVARIANT RankAgrees
CONSTRAINT Export
CHECK_DEADLOCK FALSE
