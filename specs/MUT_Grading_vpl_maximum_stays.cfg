SPECIFICATION Spec
CONSTANTS
  Scripts = {"vplmax@vpl", "vplplain@vpl", "plain"}
  Subs = {"ok"}
  MaxLen = 3
  ClearResets <- VplMaximumStays
  Writes <- W
  Reads <- R
  SubWrites <- SW
  SubReads <- SR
INVARIANT PristineAtStart
CONSTRAINT Export
CHECK_DEADLOCK FALSE
