SPECIFICATION Spec
CONSTANTS
  Cats = {"runtime", "syntax", "parser"}
  Prios = {"none"}
  Trigs = {FALSE, TRUE}
  Muteds = {FALSE}
  Kinds = {"Mistake"}
  Elses = {FALSE}
  Labels = {"a", "b"}
  Flds = {"f1", "f2"}
  Corrects = {"F"}
  Valences = {"neg"}
  Scores = {"none"}
  Unscoreds = {FALSE}
  Msgs = {"text"}
  SuppU <- SuppAlias
  MaxFb = 2
  MaxSupp = 1
  Variant = "impl"
INVARIANT ShownIsBest
INVARIANT DefaultIffNone
INVARIANT CorrectIff
INVARIANT ScoreIs
INVARIANT NoCorrectWithVisibleNegative
INVARIANT RankAgrees
CONSTRAINT Export
CHECK_DEADLOCK FALSE
