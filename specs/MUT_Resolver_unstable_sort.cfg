SPECIFICATION Spec
CONSTANTS
  Cats = {"runtime"}
  Prios = {"none"}
  Trigs = {FALSE, TRUE}
  Muteds = {FALSE}
  Kinds = {"Mistake"}
  Elses = {FALSE}
  Labels = {"a"}
  Flds = {"f1"}
  Corrects = {"F"}
  Valences = {"neg"}
  Scores = {"none"}
  Unscoreds = {FALSE}
  SuppU <- SuppScore
  MaxFb = 2
  MaxSupp = 1
  Variant = "unstable_sort"
INVARIANT ShownIsBest
INVARIANT DefaultIffNone
INVARIANT CorrectIff
INVARIANT ScoreIs
INVARIANT NoCorrectWithVisibleNegative
INVARIANT RankAgrees
CHECK_DEADLOCK FALSE
