"""C20: feedback lifecycle against specs/Lifecycle.tla (behaviour replay + mutant self-tests)."""
import json

from engine import tlc
from engine.core import shard_map
from engine.tlc import MachineryError

MUTANTS = [("MUT_Lifecycle_shared_table.cfg", "OverridesRestored"), ("MUT_Lifecycle_backup_always.cfg", "OverridesRestored"),
           ("MUT_Lifecycle_restore_none_deletes.cfg", "OverridesRestored"), ("MUT_Lifecycle_pin_inherited.cfg", "OverridesRestored"),
           ("MUT_Lifecycle_register_first_backup_only.cfg", "OverridesRestored"), ("MUT_Lifecycle_register_after_fields.cfg", "OverridesRestored"),
           ("MUT_Lifecycle_error_active.cfg", "RightList"), ("MUT_Lifecycle_swallow.cfg", "RaisesToCaller")]


def key_of(m):
    a = m["action"]
    return "C20|%s|%s" % ("+".join(m["fields"]), a["op"])


def run(prop, tier, seed, ctx):
    ctx.assumptions += ["contract = invariants of specs/Lifecycle.tla; message oracle = template rendered field by "
                        "field through the report's formatter (bind/lifecycle.py expected_message)",
                        "classes: instructor subclass P, its subclass C, tool feedback tifa.initialization_problem; "
                        "formatters: default Formatter and a tagging subclass"]
    ctx.cov["rule"] = ("case = one complete API behaviour (sequence of create/handle-delayed/override/clear/"
                       "contextualize/set_formatter calls) exported by TLC at the depth bound, replayed step by step "
                       "with the projected state compared after every call; non-trivial = contains an override, a "
                       "raising outcome or a delayed condition; distinct = distinct action sequence")
    cfgs = ["MC_Lifecycle_q.cfg", "MC_Lifecycle_none_q.cfg", "MC_Lifecycle_inherit_q.cfg", "MC_Lifecycle_fmt_q.cfg", "MC_Lifecycle_two_q.cfg"] if tier == "quick" else ["MC_Lifecycle_q.cfg", "MC_Lifecycle_none_q.cfg", "MC_Lifecycle_inherit_q.cfg", "MC_Lifecycle_fmt_q.cfg", "MC_Lifecycle_two_q.cfg", "MC_Lifecycle_t.cfg"]
    for cfg in cfgs:
        res = tlc.run("Lifecycle", cfg, workers=8, timeout=1800)
        tlc.require_ok(res, cfg)
        ctx.add_tlc(res, "exhaustive " + cfg)
        cases = list(enumerate(res.records))
        mism = shard_map("bind.lifecycle", "replay_chunk", cases)
        ctx.cov["replayed_cases"] += len(cases)
        ctx.cov["traces_validated_against_impl"] += len(cases)

        def nontriv(r):
            return any(h["a"]["op"] == "override" or h["a"]["out"] in ("CR", "MR") or h["a"]["delay"] for h in r["hist"])
        ctx.count(len(cases), (json.dumps([h["a"] for h in r["hist"]], sort_keys=True) for _, r in cases if nontriv(r)))
        ctx.sample({"kind": "behaviour", "cfg": cfg, "actions": [h["a"] for h in res.records[len(res.records) // 3]["hist"]]})
        for m in mism:
            ctx.violation(key_of(m), "after step %d (%s) the real state differs from the specification in %s" % (
                m["step"], m["action"]["op"], m["fields"]), m)
    ctx.cov["exhaustive"] = True
    # ---- deep random behaviours (tlc -simulate) over the FULL alphabet (five classes, six message kinds, three
    # formatters, string parents, two override values): nine calls per behaviour, invariants evaluated by TLC
    num = 150 if tier == "quick" else 5000
    res = tlc.run("Lifecycle", "SIM_Lifecycle_deep.cfg", workers=4, timeout=900, simulate="num=%d" % num, extra=["-depth", "12", "-seed", str(1000 + seed)])
    tlc.require_ok(res, "simulation SIM_Lifecycle_deep.cfg")
    ctx.add_tlc(res, "simulation (%d behaviours of 9 calls) SIM_Lifecycle_deep.cfg" % (4 * num))
    uniq = list({json.dumps(r, sort_keys=True): r for r in res.records}.values())
    if len(uniq) < num:
        raise MachineryError("simulation exported only %d behaviours" % len(uniq))
    cases = list(enumerate(uniq))
    mism = shard_map("bind.lifecycle", "replay_chunk", cases)
    ctx.cov["replayed_cases"] += len(cases)
    ctx.cov["traces_validated_against_impl"] += len(cases)
    ctx.count(len(cases), (json.dumps([h["a"] for h in r["hist"]], sort_keys=True) for _, r in cases))
    ctx.sample({"kind": "simulated behaviour", "actions": [h["a"] for h in uniq[0]["hist"]]})
    for m in mism:
        ctx.violation(key_of(m), "simulated behaviour, after step %d (%s) the real state differs from the specification in %s" % (
            m["step"], m["action"]["op"], m["fields"]), m)
    # ---- the core commands, one cell per command x message mode x number of items x formatter (specs/CoreCommands.tla)
    kres = tlc.run("CoreCommands", "MC_CoreCommands.cfg", workers=2, timeout=300)
    tlc.require_ok(kres, "MC_CoreCommands.cfg")
    ctx.add_tlc(kres, "core commands table MC_CoreCommands.cfg")
    kcases = list(enumerate(kres.records))
    kmis = shard_map("bind.lifecycle", "commands_chunk", kcases)
    ctx.cov["replayed_cases"] += len(kcases)
    ctx.count(len(kcases), (json.dumps(r["cell"], sort_keys=True) for _, r in kcases))
    for m in kmis:
        ctx.violation("C20|command|%s|%s" % (m["cell"]["cmd"], "+".join(m["fields"])),
                      "%s(%s) with %d item(s): %s (observed %s, expected messages %s)" % (
                          m["cell"]["cmd"], m["cell"]["mode"], m["cell"]["n"], m["fields"], m["observed"], m["expected_messages"]), m)
    for mcfg, inv in (MUTANTS if tier == "thorough" else MUTANTS[:6]):
        mres = tlc.run("Lifecycle", mcfg, workers=8, timeout=600)
        if inv not in mres.violated:
            raise MachineryError("mutant %s did not violate %s" % (mcfg, inv))
        ctx.notes.append("self-test: mutant %s violates %s" % (mcfg, inv))


def replay(prop, rep):
    from bind import lifecycle as B
    from engine.core import setup_repo_path
    setup_repo_path()
    r = rep["replay"]
    print("replay needs the exported behaviour; re-run ./check C20 (behaviours are deterministic):", r.get("hist"))
    return 1
