SPECIFICATION Spec
CONSTANTS
  ValNames = {"i1", "i2", "bT", "f1", "f1c", "f1f", "abc", "ABC", "abc!", "abd", "none", "err", "errx", "L12", "L12c", "T12", "Labc", "LABC", "L0", "empty", "i0", "D_A1", "D_a2", "D_a1", "huge", "T1a", "Brepr", "Vobj", "DC12", "DC13", "T123", "L1a", "S1", "S2", "S12", "Sf", "Sg", "nan", "inf"}
  Asserts = {"equal", "not_equal", "less", "less_equal", "greater", "greater_equal", "in", "not_in", "is_none", "is_not_none", "true", "false", "length_equal", "length_not_equal", "length_less", "length_greater_equal", "is", "is_not", "is_instance", "not_is_instance", "regex", "not_regex", "output", "output_exact", "not_output_exact", "not_output", "output_contains", "not_output_contains", "type", "not_type"}
  MaxCases = 3
  Flags = {}
INVARIANT Complement
INVARIANT EqSymmetric
INVARIANT NeverBothPass
INVARIANT UnitTestCount
CONSTRAINT Export
CHECK_DEADLOCK FALSE
