"""Binding of specs/Grading.tla (C13): run histories of (instructor script, submission) gradings in one
process through Bundle.run_ics_bundle and compare every grading with a fresh-interpreter baseline."""
import json
import os
import subprocess
import sys

ROOT = os.path.dirname(os.path.dirname(os.path.abspath(__file__)))

SUBMISSIONS = {
    "ok": "def add(a, b):\n    return a + b\nprint('hello')\nprint(add(1, 1))\n",
    "crash": "print('hello')\nprint(1 / 0)\n",
    "mathmut": "import math\nif False:\n    math.pi = 'undefined'\nprint('hello')\n",
    "syntax": "def add(a, b):\n    return a +\nprint('hello')\n",
    "unused": "def add(a, b):\n    return a + b\nleftover = 5\nfor i in range(2):\n    print(i)\n",
    "parts": "print('pre')\n##### Part 1\nfirst = 1\nprint(first)\n##### Part 2\nsecond = undefined_thing\n",
    # a standard module that nothing in the process has imported yet, with module-level state
    "modset": "import calendar\ncalendar.setfirstweekday(6)\nprint('set')\n",
    # (the same text, graded by a script that lets TIFA run: TIFA imports the modules a submission names FOR REAL, outside
    # the sandbox's module-table patch, so the module stays loaded and keeps its state)
    "modsetT": "import calendar\ncalendar.setfirstweekday(6)\nprint('set')\n",
    "modget": "import calendar\nprint(calendar.firstweekday())\n",
    # two submissions of the same file that take different branches (what a statement-coverage measurement sees)
    "branch_else": "x = 0\nif x:\n    y = 2\nelse:\n    y = 3\nprint(y)\n",
    "branch_if": "x = 1\nif x:\n    y = 2\nelse:\n    y = 3\nprint(y)\n",
    # submissions of TWO files: the second one is imported lazily inside a method (A) or at the top (B)
    "greetA": {"answer.py": "class Greeter:\n    def greet(self):\n        import phrases\n        return phrases.GREETING\n\ndef make_greeter():\n    return Greeter()\n",
               "phrases.py": "GREETING = 'Hello!'\n"},
    "greetB": {"answer.py": "import phrases\n\nclass Greeter:\n    def greet(self):\n        return phrases.GREETING\n\ndef make_greeter():\n    return Greeter()\n\nprint('greeting is', phrases.GREETING)\n",
               "phrases.py": "GREETING = 'Howdy!'\n"},
    "realmut": "import math\nmath.pi = 3\nprint(math.pi)\n",
    # pedal's own stand-in for the turtle module: what it hands out must not be the table it works from
    "turtleclear": "import turtle\nturtle.__all__.clear()\nprint('cleared')\n",
    "turtlestar": "from turtle import *\nforward(10)\nprint('moved')\n",
    "mathy": "import math\narea = math.pi * 2 ** 2 + 1\nprint(area)\n",
    # attribute assignments on values of builtin types: TIFA records them in the value's method table
    "attrassign": "def add(a, b):\n    return a + b\nname = ' ada '.strip()\nname.upper = 'ADA'\nnums = [1].copy()\nnums.append = 3\nprint('hello')\nprint(add(1, 1))\n",
    "attrlit": ("def add(a, b):\n    return a + b\nname = 'ada'\nname.upper = 'ADA'\npair = (1, 2)\npair.count = 3\nn = 5\nn.bit_length = 2\n"
                "print('hello')\nprint(add(1, 1))\n"),
    # a registered module reached through a dotted import, with the beginner mistake `plt.title = ...`
    "pltassign": "def add(a, b):\n    return a + b\nimport matplotlib.pyplot as plt\nplt.title = 'My Plot'\nplt.plot([1, 2])\nplt.show()\nprint('hello')\nprint(add(1, 1))\n",
    "pltcall": "def add(a, b):\n    return a + b\nimport matplotlib.pyplot as plt\nplt.title('My Plot')\nplt.plot([1, 2])\nplt.show()\nprint('hello')\nprint(add(1, 1))\n",
    "uselen": "print('hello')\nprint(len('abc'))\n",
    "methodcall": ("def add(a, b):\n    return a + b\nname = ' ada '.strip()\nprint(name.upper())\nword = 'x'\nprint(word.upper())\n"
                   "pair = (1, 2)\nprint(pair.count(1))\nnums = [1].copy()\nnums.append(2)\nprint('hello')\nprint(add(1, 1))\n"),
}

# instructor control scripts; `writes` = process-wide slots the script dirties (for the TLA+ model)
SCRIPTS = {
    "plain": ("from pedal import *\n"
              "if not find_asts('For'):\n    gently('Use a loop', label='no_loop')\n"
              "assert_equal(call('add', 1, 2), 3)\n"),
    "override": ("from pedal import *\nfrom pedal.sandbox.feedbacks import runtime_error\nfrom pedal.tifa.feedbacks import unused_variable\n"
                 "runtime_error.override(message_template='OVERRIDDEN runtime message')\n"
                 "unused_variable.override(title='Overridden Unused', muted=True)\n"
                 "gently.override(title='Overridden Gently')\n"
                 "assert_equal(call('add', 1, 2), 3)\n"),
    "override_twice": ("from pedal import *\nfrom pedal.sandbox.feedbacks import runtime_error\nfrom pedal.assertions.feedbacks import AssertionFeedback\n"
                       "runtime_error.override(message_template='First template')\nruntime_error.override(message_template='Second template')\n"
                       "AssertionFeedback.override(muted=True)\n"
                       "assert_equal(call('add', 1, 2), 3)\n"),
    "suppress": ("from pedal import *\nsuppress('runtime')\nsuppress('algorithmic', 'unused_variable')\nsuppress(label='no_loop')\n"
                 "if not find_asts('For'):\n    gently('Use a loop', label='no_loop')\n"),
    "crashing": ("from pedal import *\nfrom pedal.sandbox.feedbacks import runtime_error\n"
                 "from pedal.core.formatting import HtmlFormatter\n"
                 "suppress('syntax')\nruntime_error.override(title='Leaked title')\nset_formatter(HtmlFormatter)\n"
                 "block_function('print')\nstart_trace('native')\n"
                 "gently('before the crash')\nraise ValueError('bug in the instructor script')\n"),
    "formatter": ("from pedal import *\nfrom pedal.core.formatting import HtmlFormatter\nset_formatter(HtmlFormatter)\n"
                  "assert_equal(call('add', 1, 2), 3)\n"),
    "mocks": ("from pedal import *\nblock_function('print')\nmock_function('len', lambda x: 42)\nblock_module('math')\n"
              "allow_function('eval')\nset_input(['1', '2'])\nrun()\nassert_equal(call('add', 1, 2), 3)\n"),
    "sections": ("from pedal import *\nfrom pedal.tifa import tifa_analysis\nfrom pedal.source.sections import *\nseparate_into_sections(independent=True)\n"
                 "next_section()\nverify()\ntifa_analysis()\nrun()\n"),
    "pools": ("from pedal import *\nfrom pedal.core.commands import set_pools\nMAIN_REPORT.set_pools(['A'])\n"
              "gently.override_for_pool('A', title='Pool title')\n"
              "if not find_asts('For'):\n    gently('Use a loop', label='no_loop')\n"),
    "partial": ("from pedal import *\nhide_correctness()\ngive_partial(0.25)\ncompliment('nice')\n"
                "assert_equal(call('add', 2, 2), 4, score='+50%')\n"),
    "groups": ("from pedal import *\nfrom pedal.assertions.organizers import *\n"
               "unit_test('add', ((1, 2), 3), ((2, 2), 4), score='50%')\n"
               "with CommandBlock():\n    evaluate('add(1, 1)')\n    assert_output(student, 'hello')\n"),
    "tifa_types": ("from pedal import *\nfrom pedal.tifa import tifa_analysis\n"
                   "tifa_analysis()\nensure_import('math')\nprevent_operation('/')\n"),
    "classhook": ("from pedal import *\nexplain('always', label='always_wrong', priority='low')\n"),
    # two DIFFERENT scripts (graded under the same instructor file name) whose own function fails when student code calls it
    "raiser_a": ("from pedal import *\ndef broken(x):\n    raise ValueError('from script A')\n"
                 "mock_function('len', broken)\nrun()\n"),
    # a question pool that picks its question by the POSITION of the pool among the pools created (list seed)
    "qpool": ("from pedal import *\nfrom pedal.questions import Pool, Question, set_seed\nset_seed([0, 1, 0, 1, 0, 1])\n"
              "qa = Question('QA', 'Create a for loop.', [lambda q: False])\nqb = Question('QB', 'Create an if statement.', [lambda q: False])\n"
              "Pool('P1', [qa, qb]).choose().ask()\n"),
    # graded WITHOUT the automatic TIFA run (skip_tifa=True): TIFA would import the student's modules for real itself
    "plain_notifa": ("from pedal import *\nrun()\n"),
    # the instructor asks for the parser's own wording of syntax errors (a rarely passed keyword of verify)
    "verify_native": ("from pedal import *\nfrom pedal.source import verify\nverify(enhance=False)\n"),
    # measures statement coverage of the student's program with the sandbox's coverage tracer and demands 90 %
    "cover": ("from pedal import *\nfrom pedal.sandbox.commands import start_trace\nstart_trace('coverage')\nstudent = run()\nensure_coverage(.9)\n"),
    # graded through the VPL environment (its resolver prints "Grade :=>> N" scaled by a maximum score the script may set)
    "vplmax@vpl": ("from pedal import *\nfrom pedal.environments.vpl import set_maximum_score\nset_maximum_score(100)\nset_success()\nresolve()\n"),
    "vplplain@vpl": ("from pedal import *\nset_success()\nresolve()\n"),
    "gsmax@gs": ("from pedal import *\nfrom pedal.environments.gradescope import set_maximum_score\nset_maximum_score(50)\nset_success()\nresolve()\n"),
    "gsplain@gs": ("from pedal import *\nset_success()\nresolve()\n"),
    # calls a METHOD of an object the student's function returned (student code running after the sandbox call returned)
    "greeter": ("from pedal import *\nsuppress('algorithmic', 'unused_variable')\ngreeter = call('make_greeter')\nassert_equal(greeter.greet(), 'Hello!')\n"),
    "raiser_b": ("from pedal import *\ndef broken(x):\n    return int('not a number (script B)')\n"
                 "mock_function('len', broken)\nrun()\n"),
}

SLOTS = ["feedback", "suppressions", "hiddens", "hooks", "tooldata", "formatter", "overrides", "pools", "question_pools",
         "sandbox_mocks", "tracer", "sections", "builtin_modules", "process_globals"]


def next_pool_position(R):
    """The position the next question pool of this report would get (observed by creating one, then put back)."""
    import copy
    from pedal.questions.pool import Pool
    saved_counter = getattr(Pool, "_POOL_TRACKER", None)       # (the pinned code counted on the class)
    saved_data = copy.copy(R._tool_data.get("questions"))
    try:
        return Pool("probe", report=R).position
    finally:
        if saved_counter is not None:
            Pool._POOL_TRACKER = saved_counter
        if saved_data is None:
            R._tool_data.pop("questions", None)
        else:
            R._tool_data["questions"] = saved_data


def grade_vpl(script_id, sub_id):
    """One grading through the VPL (or GradeScope) environment, constructed directly as its evaluate script does."""
    import io
    from contextlib import redirect_stdout
    if script_id.endswith("@gs"):
        from pedal.environments.gradescope import GradeScopeEnvironment

        def VPLEnvironment(**kw):
            return GradeScopeEnvironment(threaded=False, trace=False, **kw)
    else:
        from pedal.environments.vpl import VPLEnvironment
    captured = io.StringIO()
    out = {"error": None, "label": None, "title": None, "message": None, "correct": None, "score": None, "student_output": None}
    with redirect_stdout(captured):
        try:
            code = SUBMISSIONS[sub_id]["answer.py"] if isinstance(SUBMISSIONS[sub_id], dict) else SUBMISSIONS[sub_id]
            env = VPLEnvironment(main_code=code, main_file="answer.py", instructor_file="on_run.py")
            namespace = dict(env.fields)
            exec(compile(SCRIPTS[script_id], "on_run.py", "exec"), namespace)
        except Exception as e:
            out["error"] = type(e).__name__
    out["output"] = captured.getvalue()
    return out


def grade(script_id, sub_id):
    """One grading in this process; returns the projected result."""
    if script_id.endswith(("@vpl", "@gs")):
        return grade_vpl(script_id, sub_id)
    from pedal.command_line.modes import Bundle
    from pedal.core.submission import Submission

    class Config:
        threaded = False
        resolver = "resolve"
    files = SUBMISSIONS[sub_id] if isinstance(SUBMISSIONS[sub_id], dict) else {"answer.py": SUBMISSIONS[sub_id]}
    sub = Submission(files=dict(files), main_file="answer.py", main_code=files["answer.py"], instructor_file="on_run.py")
    b = Bundle(Config(), SCRIPTS[script_id], sub)
    b.environment = "standard"
    b.run_ics_bundle(skip_tifa=script_id.endswith("_notifa"))
    r = b.result
    res = r.resolution
    out = {"error": type(r.error).__name__ if r.error is not None else None}
    if res is not None and hasattr(res, "label"):
        out.update({"label": res.label, "title": res.title, "message": res.message, "correct": bool(res.correct),
                    "score": res.score})
    else:
        out.update({"label": None, "title": None, "message": None, "correct": None, "score": None})
    out["output"] = r.output
    st = r.data.get("student")
    out["student_output"] = list(st.output) if st is not None and hasattr(st, "output") else None
    return out


def slot_projection():
    """Which process-wide slots are not pristine right now (observed before a grading starts)?"""
    import sys as _sys
    import time as _time
    from pedal.core.report import MAIN_REPORT as R
    from pedal.core.feedback import Feedback
    dirty = []
    if R.feedback or R.ignored_feedback:
        dirty.append("feedback")
    if R.suppressions or R.suppressed_labels:
        dirty.append("suppressions")
    if R.hiddens:
        dirty.append("hiddens")
    if R.hooks:
        dirty.append("hooks")
    if R._tool_data:
        dirty.append("tooldata")
    if type(R.format).__name__ != "Formatter":
        dirty.append("formatter")
    if R.overridden_feedbacks:
        dirty.append("overrides")
    if R.pools or R.chosen_pool or Feedback._pools:
        dirty.append("pools")
    from pedal.questions.pool import Pool
    if next_pool_position(R) != 0 or Pool._CURRENT:
        dirty.append("question_pools")
    if real_module_state() != PRISTINE_MODULES or "calendar" in _sys.modules:
        dirty.append("real_modules")
    return dirty


WATCHED_MODULES = ("math", "random", "string", "statistics", "time")


def real_module_state():
    """Names and identities of what the interpreter's own standard modules contain (the objects student code imports)."""
    import importlib
    return {name: sorted((k, id(v)) for k, v in vars(importlib.import_module(name)).items() if not k.startswith("__"))
            for name in WATCHED_MODULES}


PRISTINE_MODULES = real_module_state()


def run_history(hist):
    out = []
    for script_id, sub_id in hist:
        # slots that survive Environment()'s clear are observed right after a clear, as the next grading would
        from pedal.core.report import MAIN_REPORT as R
        R.clear()
        dirty = slot_projection()
        out.append({"pair": [script_id, sub_id], "dirty_at_start": dirty, "result": grade(script_id, sub_id)})
    return out


def baseline(pair):
    """The pair graded first in a fresh interpreter."""
    code = ("import sys, json; sys.path.insert(0, %r); sys.path.insert(0, %r); import os; os.environ['PEDAL_EDU_PEDAL_VERIF']='1';"
            "from bind import grading as G; print('@@' + json.dumps(G.grade(%r, %r), default=repr))") % (
        os.environ.get("VERIF_REPO", "/repo"), ROOT, pair[0], pair[1])
    import tempfile, shutil
    tmp = tempfile.mkdtemp(prefix="vbase")
    try:
        p = subprocess.run(["/venv/bin/python", "-c", code], stdout=subprocess.PIPE, stderr=subprocess.PIPE, text=True,
                           timeout=120, env=dict(os.environ, PYTHONHASHSEED="0"), cwd=tmp)
    finally:
        shutil.rmtree(tmp, ignore_errors=True)
    for line in p.stdout.splitlines():
        if line.startswith("@@"):
            return json.loads(line[2:])
    raise RuntimeError("baseline for %s failed: %s" % (pair, p.stderr[-800:]))


def baseline_chunk(pairs, extra):
    return [(tuple(p), baseline(p)) for p in pairs]


KEYS = ["label", "title", "message", "correct", "score", "student_output", "error", "output"]


def history_chunk(cases, extra):
    """Each case is run in its OWN forked child (histories must not contaminate each other)."""
    from engine.core import setup_repo_path
    setup_repo_path()
    baselines = extra["baselines"]
    out = []
    for idx, rec in cases:
        r, w = os.pipe()
        pid = os.fork()
        if pid == 0:
            try:
                os.close(r)
                # (coverage.py writes its data file into the working directory: one directory per history)
                import tempfile
                os.chdir(tempfile.mkdtemp(prefix="vgrade"))
                res = run_history([tuple(x) for x in rec["hist"]])
                os.write(w, json.dumps(res, default=repr).encode())
            except BaseException as e:
                os.write(w, json.dumps({"crash": "%s: %s" % (type(e).__name__, e)}).encode())
            finally:
                import shutil
                shutil.rmtree(os.getcwd(), ignore_errors=True) if os.path.basename(os.getcwd()).startswith("vgrade") else None
                os._exit(0)
        os.close(w)
        buf = b""
        while True:
            chunk = os.read(r, 1 << 16)
            if not chunk:
                break
            buf += chunk
        os.close(r)
        os.waitpid(pid, 0)
        res = json.loads(buf.decode() or '{"crash": "no output"}')
        if isinstance(res, dict) and "crash" in res:
            out.append({"hist": rec["hist"], "position": 0, "kind": "harness-crash", "detail": res["crash"]})
            continue
        for pos, g in enumerate(res, 1):
            base = baselines[json.dumps(g["pair"])]
            diff = [k for k in KEYS if g["result"].get(k) != base.get(k)]
            if diff:
                out.append({"hist": rec["hist"], "position": pos, "kind": "differs", "fields": diff, "pair": g["pair"],
                            "dirty_at_start": g["dirty_at_start"],
                            "observed": {k: g["result"].get(k) for k in diff}, "baseline": {k: base.get(k) for k in diff},
                            "previous": rec["hist"][:pos - 1]})
    return out
