----------------------------- MODULE TraceStatic -----------------------------
(* Batch validation of recorded (program, feature) observations against the StaticChecks contract.
   Each trace is a sequence of events; CPython's ast.walk count and line set are logged environment facts. *)
EXTENDS StaticChecks, IOUtils, TLCExt
Traces == JsonDeserialize(IOEnv.TRACE_FILE)
NT == Len(Traces)
VARIABLES tid, l
tvars == <<q, fires, tid, l>>
ASSUME \A i \in 1..(2 * NT) : TLCSet(i, 0)
Ev == Traces[tid][l]
More == l <= Len(Traces[tid])
TInit == tid \in 1..NT /\ l = 1 /\ q = [f |-> "-", count |-> 0, thr |-> 0, pol |-> "ensure", place |-> "-"] /\ fires = "pending"
\* event "find": pedal's find_* result for the feature;  event "query": one ensure/prevent call
FindOk == Ev.found = Ev.count
QueryOk == /\ (Ev.fired <=> FiresP(Ev.pol, Ev.count, Ev.thr))
           /\ (Ev.fired /\ Ev.pol = "prevent" /\ Ev.line # 0 => Ev.line \in {Ev.lines[i] : i \in 1..Len(Ev.lines)})
TStep == /\ More
         /\ \/ Ev.e = "find" /\ FindOk
            \/ Ev.e = "query" /\ QueryOk
         /\ l' = l + 1 /\ UNCHANGED <<q, fires, tid>>
TSpec == TInit /\ [][TStep]_tvars
Clause == IF ~More THEN 0 ELSE IF Ev.e = "find" THEN 1 ELSE IF ~(Ev.fired <=> FiresP(Ev.pol, Ev.count, Ev.thr)) THEN 2 ELSE 3
Progress == IF l > TLCGet(tid) THEN TLCSet(tid, l) /\ TLCSet(NT + tid, Clause) ELSE TRUE
Post == LET rej == {i \in 1..NT : TLCGet(i) < Len(Traces[i]) + 1} IN
        /\ PrintT(<<"ACCEPTED", NT - Cardinality(rej)>>)
        /\ \A i \in rej : PrintT(<<"REJECTED", i, TLCGet(i), ToString(TLCGet(NT + i))>>)
=============================================================================
