----------------------------- MODULE TimeoutRace -----------------------------
(***************************************************************************)
(* Threaded execution with a time limit (pedal/sandbox/timeout.py and      *)
(* Sandbox._execute).  Two processes, the grader thread M and the student  *)
(* thread T, over the sandbox fields they share; one label per access to   *)
(* shared state.  A later unthreaded run("print('n')") on the same sandbox *)
(* follows, interleaved with whatever T still does.                        *)
(*                                                                         *)
(* Design = "student_bookkeeping": the pinned code -- the student thread    *)
(*   runs all of _execute (start/stop mocking, recording), the grader's    *)
(*   TimeoutError handler touches the same fields unsynchronised.          *)
(* Design = "grader_bookkeeping": the repaired code -- only exec() of the  *)
(*   student program runs in T; every field of the sandbox is written by M.*)
(* Kind of student program: busy | printer | swallower | blocked | finisher*)
(*   | catcher (a retry loop that catches Exception, not BaseException).   *)
(* Inject = "base": terminate() raises SystemExit (a BaseException) in T;  *)
(*   "exception" models an injected class derived from Exception, which a  *)
(*   catcher swallows.                                                     *)
(* Handback: how T hands the exception its code died from back to M --     *)
(*   "per_run": a cell owned by that execution (the code: a list local to  *)
(*   _run_in_thread); "shared_field": one sandbox field reset at the start *)
(*   of every threaded execution.                                          *)
(* Kind = importer: the non-terminating code sits in a second student file  *)
(*   reached through import.  ImportThread = "inline": it runs in T itself *)
(*   (the code); "nested": the import is given a helper thread O of its    *)
(*   own which T joins -- stopping T leaves O running for ever.            *)
(* Kind = unwinder: a loop whose clean-up clause (finally / __exit__) FAILS *)
(*   while the thread unwinds from the injected exit, so what T hands back *)
(*   is that error, not the exit.  TimeoutPolicy = "timeout_wins": M reports*)
(*   the timeout whatever T recorded (the code); "thread_exc_wins": M looks *)
(*   at T's cell after the limit and prefers an error found there.         *)
(* NextRun = "plain": the later execution is unthreaded; "threaded": it is *)
(*   threaded too, and (Kind = blocked) its program releases the lock the  *)
(*   abandoned thread is blocked on, so that thread dies DURING it.        *)
(***************************************************************************)
EXTENDS Naturals, Sequences, TLC, Json

CONSTANTS Design, Kind, MaxSteps, Inject, Handback, NextRun, ImportThread, TimeoutPolicy

(* --algorithm race
variables
  patches = <<>>,      \* sandbox._current_patches: each entry = the saved original of sys.stdout
  stdouts = <<>>,      \* sandbox._current_stdout: buffer ids
  pOut = "real",       \* process-global sys.stdout target
  buf = [b \in {"b1", "b2"} |-> <<>>],   \* contents of the capture buffers
  realOut = <<>>,      \* what leaked to the real stdout
  raw = <<>>,          \* sandbox.raw_output as a sequence of <<buffer id, content>> chunks
  exc = "none", fbs = <<>>,
  pending = FALSE,     \* an asynchronous SystemExit has been requested for T
  tState = "new",      \* new | running | dead | blocked | immortal
  cur = "r1",          \* the execution the sandbox is performing (r1: the one that times out, r2: the later one)
  xcell = [r \in {"r1", "r2"} |-> "none"],   \* exception handed back by the student thread of each execution
  released = FALSE,    \* the lock a blocked student thread waits for has been released
  nOutcome = "none", excNext = "unset",
  orphanRuns = FALSE,  \* the import's own helper thread is running (ImportThread = "nested")
  mDone = FALSE, crashed = {}, excAtReturn = "unset", timedOut = FALSE,
  sched = <<>>;        \* sequence of hook-level points passed, for schedule forcing

define
  Quiet == mDone /\ tState \in {"dead", "blocked", "immortal"}
  Swallows == Kind = "swallower" \/ (Kind = "catcher" /\ Inject = "exception")
  Nested == Kind = "importer" /\ ImportThread = "nested"
  MySlot == IF Handback = "shared_field" THEN cur ELSE "r1"     \* T is the student thread of execution r1
end define;

macro write(ch) begin
  if pOut = "real" then realOut := Append(realOut, ch) else buf[pOut] := Append(buf[pOut], ch) end if;
end macro;
macro hook(p) begin
  sched := Append(sched, p);
end macro;

\* ---------------- student thread
process T = "T"
variables steps = 0, tmp = "none";
begin
t_wait:   await tState = "running" \/ Design = "student_bookkeeping";
t_begin:  if Design = "student_bookkeeping" then
             exc := "none";
t_mock1:     stdouts := <<"b1">> \o stdouts;
t_mock2:     patches := <<pOut>> \o patches; pOut := "b1"; tState := "running";
          end if;
t_loop:   while TRUE do
            if Kind = "blocked" then goto t_blocked
            elsif pending /\ ~Swallows then pending := FALSE; goto t_exit
            elsif pending /\ Swallows then pending := FALSE
            elsif steps >= MaxSteps then
               if Kind = "finisher" then goto t_done
               elsif Swallows then goto t_immortal
               else await pending end if;
            else
               steps := steps + 1;
               if Nested then orphanRuns := TRUE       \* T only waits for O from here on
               elsif Kind \in {"printer", "swallower", "finisher", "catcher", "importer"} then write("s"); hook("T:step") end if;
            end if;
          end while;
t_blocked: tState := "blocked";
t_b2:     await released /\ pending;      \* a later execution released the lock: the pending exit surfaces now
          pending := FALSE; tState := "running"; goto t_exit;
t_immortal: tState := "immortal";
t_i2:     await FALSE;
\* --- the asynchronous SystemExit surfaced in T
t_exit:   hook("T:exit");
          if Design = "grader_bookkeeping" then
             xcell[MySlot] := IF Kind = "unwinder" THEN "unwind_error" ELSE "sysexit"; goto t_dead
          end if;
\* student_bookkeeping: `except SystemExit` handler of _execute, access by access
th_check: if patches = <<>> then goto th_popOut end if;
th_pop:   if patches = <<>> then crashed := crashed \cup {"T:IndexError"}; goto t_dead
          else tmp := Head(patches); patches := Tail(patches) end if;
th_stop:  pOut := tmp;
th_popOut: if stdouts = <<>> then crashed := crashed \cup {"T:IndexError"}; goto t_dead
          else raw := Append(raw, <<Head(stdouts), buf[Head(stdouts)]>>); stdouts := Tail(stdouts) end if;
th_excW:  exc := "sysexit";
th_build: fbs := Append(fbs, exc);      \* runtime_error_function(exception=self.exception ...): re-reads the field
          goto t_dead;
\* --- student code finished by itself
t_done:   if Design = "grader_bookkeeping" then goto t_dead end if;
te_check: if pending then goto t_dead elsif patches = <<>> then goto te_popOut end if;
te_pop:   if pending then goto t_dead
          elsif patches = <<>> then crashed := crashed \cup {"T:IndexError"}; goto t_dead
          else tmp := Head(patches); patches := Tail(patches) end if;
te_stop:  if pending then goto t_dead else pOut := tmp end if;
te_popOut: if pending then goto t_dead
          elsif stdouts = <<>> then crashed := crashed \cup {"T:IndexError"}; goto t_dead
          else raw := Append(raw, <<Head(stdouts), buf[Head(stdouts)]>>); stdouts := Tail(stdouts) end if;
t_dead:   tState := "dead";
end process;

\* ---------------- the helper thread of a nested import: nobody ever terminates it
process O = "O"
variables osteps = 0;
begin
o_wait:   await orphanRuns;
o_loop:   while osteps < MaxSteps + 2 do
            write("s"); osteps := osteps + 1;
          end while;
end process;

\* ---------------- grader thread
process M = "M"
variables mtmp = "none";
begin
m_begin:  if Design = "grader_bookkeeping" then
             exc := "none";
m_mock1:     stdouts := <<"b1">> \o stdouts;
m_mock2:     patches := <<pOut>> \o patches; pOut := "b1"; tState := "running";
          end if;
m_join:   await tState # "new";
          either await tState = "dead"; goto m_finished      \* finished within the limit
          or     await tState # "dead"; timedOut := TRUE end either;
m_term:   if tState # "dead" then pending := TRUE end if;     \* terminate(): async SystemExit
          hook("M:terminated");
\* --- TimeoutError handler (student_bookkeeping: _execute_with_timeout; grader_bookkeeping: _execute's own)
mh_entry: hook("M:handler");
mh_check: if patches = <<>> then goto mh_popOut end if;
mh_pop:   if patches = <<>> then crashed := crashed \cup {"M:IndexError"}; goto m_ret
          else mtmp := Head(patches); patches := Tail(patches) end if;
mh_stop:  pOut := mtmp; hook("M:unpatched");
mh_popOut: if Design = "grader_bookkeeping" then
             if stdouts = <<>> then crashed := crashed \cup {"M:IndexError"}; goto m_ret
             else raw := Append(raw, <<Head(stdouts), buf[Head(stdouts)]>>); stdouts := Tail(stdouts) end if;
          end if;
mh_excW:  exc := IF TimeoutPolicy = "thread_exc_wins" /\ xcell["r1"] = "unwind_error" THEN "unwind_error" ELSE "timeout";
mh_build: fbs := Append(fbs, exc);
          goto m_ret;
\* --- the thread ended within the limit
m_finished: if Design = "grader_bookkeeping" then
mf_pop:      mtmp := Head(patches); patches := Tail(patches);
mf_stop:     pOut := mtmp;
mf_popOut:   raw := Append(raw, <<Head(stdouts), buf[Head(stdouts)]>>); stdouts := Tail(stdouts);
          end if;
m_ret:    excAtReturn := exc; hook("M:returned");
\* --- a later, unthreaded run("print('n')") on the same sandbox
n_begin:  exc := "none"; cur := "r2";
          if NextRun = "threaded" /\ Handback = "shared_field" then xcell["r2"] := "none" end if;
n_mock1:  stdouts := <<"b2">> \o stdouts;
n_mock2:  patches := <<pOut>> \o patches; pOut := "b2";
n_print:  write("n"); hook("M:nextprint");
          if NextRun = "threaded" /\ Kind = "blocked" then released := TRUE end if;
\* threaded later execution: after its own student thread was joined, M looks at what was handed back
n_join:   if NextRun = "threaded" /\ xcell["r2"] # "none" then nOutcome := xcell["r2"] end if;
n_check:  if patches = <<>> then goto n_popOut end if;
n_pop:    if patches = <<>> then crashed := crashed \cup {"N:IndexError"}; goto n_done
          else mtmp := Head(patches); patches := Tail(patches) end if;
n_stop:   pOut := mtmp;
n_popOut: if stdouts = <<>> then crashed := crashed \cup {"N:IndexError"}
          else raw := Append(raw, <<Head(stdouts), buf[Head(stdouts)]>>); stdouts := Tail(stdouts) end if;
n_record: if nOutcome # "none" then exc := nOutcome; fbs := Append(fbs, nOutcome) end if;
n_done:   excNext := exc; mDone := TRUE;
end process;
end algorithm; *)
\* BEGIN TRANSLATION
VARIABLES pc, patches, stdouts, pOut, buf, realOut, raw, exc, fbs, pending, 
          tState, cur, xcell, released, nOutcome, excNext, orphanRuns, mDone, 
          crashed, excAtReturn, timedOut, sched

(* define statement *)
Quiet == mDone /\ tState \in {"dead", "blocked", "immortal"}
Swallows == Kind = "swallower" \/ (Kind = "catcher" /\ Inject = "exception")
Nested == Kind = "importer" /\ ImportThread = "nested"
MySlot == IF Handback = "shared_field" THEN cur ELSE "r1"

VARIABLES steps, tmp, osteps, mtmp

vars == << pc, patches, stdouts, pOut, buf, realOut, raw, exc, fbs, pending, 
           tState, cur, xcell, released, nOutcome, excNext, orphanRuns, mDone, 
           crashed, excAtReturn, timedOut, sched, steps, tmp, osteps, mtmp >>

ProcSet == {"T"} \cup {"O"} \cup {"M"}

Init == (* Global variables *)
        /\ patches = <<>>
        /\ stdouts = <<>>
        /\ pOut = "real"
        /\ buf = [b \in {"b1", "b2"} |-> <<>>]
        /\ realOut = <<>>
        /\ raw = <<>>
        /\ exc = "none"
        /\ fbs = <<>>
        /\ pending = FALSE
        /\ tState = "new"
        /\ cur = "r1"
        /\ xcell = [r \in {"r1", "r2"} |-> "none"]
        /\ released = FALSE
        /\ nOutcome = "none"
        /\ excNext = "unset"
        /\ orphanRuns = FALSE
        /\ mDone = FALSE
        /\ crashed = {}
        /\ excAtReturn = "unset"
        /\ timedOut = FALSE
        /\ sched = <<>>
        (* Process T *)
        /\ steps = 0
        /\ tmp = "none"
        (* Process O *)
        /\ osteps = 0
        (* Process M *)
        /\ mtmp = "none"
        /\ pc = [self \in ProcSet |-> CASE self = "T" -> "t_wait"
                                        [] self = "O" -> "o_wait"
                                        [] self = "M" -> "m_begin"]

t_wait == /\ pc["T"] = "t_wait"
          /\ tState = "running" \/ Design = "student_bookkeeping"
          /\ pc' = [pc EXCEPT !["T"] = "t_begin"]
          /\ UNCHANGED << patches, stdouts, pOut, buf, realOut, raw, exc, fbs, 
                          pending, tState, cur, xcell, released, nOutcome, 
                          excNext, orphanRuns, mDone, crashed, excAtReturn, 
                          timedOut, sched, steps, tmp, osteps, mtmp >>

t_begin == /\ pc["T"] = "t_begin"
           /\ IF Design = "student_bookkeeping"
                 THEN /\ exc' = "none"
                      /\ pc' = [pc EXCEPT !["T"] = "t_mock1"]
                 ELSE /\ pc' = [pc EXCEPT !["T"] = "t_loop"]
                      /\ exc' = exc
           /\ UNCHANGED << patches, stdouts, pOut, buf, realOut, raw, fbs, 
                           pending, tState, cur, xcell, released, nOutcome, 
                           excNext, orphanRuns, mDone, crashed, excAtReturn, 
                           timedOut, sched, steps, tmp, osteps, mtmp >>

t_mock1 == /\ pc["T"] = "t_mock1"
           /\ stdouts' = <<"b1">> \o stdouts
           /\ pc' = [pc EXCEPT !["T"] = "t_mock2"]
           /\ UNCHANGED << patches, pOut, buf, realOut, raw, exc, fbs, pending, 
                           tState, cur, xcell, released, nOutcome, excNext, 
                           orphanRuns, mDone, crashed, excAtReturn, timedOut, 
                           sched, steps, tmp, osteps, mtmp >>

t_mock2 == /\ pc["T"] = "t_mock2"
           /\ patches' = <<pOut>> \o patches
           /\ pOut' = "b1"
           /\ tState' = "running"
           /\ pc' = [pc EXCEPT !["T"] = "t_loop"]
           /\ UNCHANGED << stdouts, buf, realOut, raw, exc, fbs, pending, cur, 
                           xcell, released, nOutcome, excNext, orphanRuns, 
                           mDone, crashed, excAtReturn, timedOut, sched, steps, 
                           tmp, osteps, mtmp >>

t_loop == /\ pc["T"] = "t_loop"
          /\ IF Kind = "blocked"
                THEN /\ pc' = [pc EXCEPT !["T"] = "t_blocked"]
                     /\ UNCHANGED << buf, realOut, pending, orphanRuns, sched, 
                                     steps >>
                ELSE /\ IF pending /\ ~Swallows
                           THEN /\ pending' = FALSE
                                /\ pc' = [pc EXCEPT !["T"] = "t_exit"]
                                /\ UNCHANGED << buf, realOut, orphanRuns, 
                                                sched, steps >>
                           ELSE /\ IF pending /\ Swallows
                                      THEN /\ pending' = FALSE
                                           /\ pc' = [pc EXCEPT !["T"] = "t_loop"]
                                           /\ UNCHANGED << buf, realOut, 
                                                           orphanRuns, sched, 
                                                           steps >>
                                      ELSE /\ IF steps >= MaxSteps
                                                 THEN /\ IF Kind = "finisher"
                                                            THEN /\ pc' = [pc EXCEPT !["T"] = "t_done"]
                                                            ELSE /\ IF Swallows
                                                                       THEN /\ pc' = [pc EXCEPT !["T"] = "t_immortal"]
                                                                       ELSE /\ pending
                                                                            /\ pc' = [pc EXCEPT !["T"] = "t_loop"]
                                                      /\ UNCHANGED << buf, 
                                                                      realOut, 
                                                                      orphanRuns, 
                                                                      sched, 
                                                                      steps >>
                                                 ELSE /\ steps' = steps + 1
                                                      /\ IF Nested
                                                            THEN /\ orphanRuns' = TRUE
                                                                 /\ UNCHANGED << buf, 
                                                                                 realOut, 
                                                                                 sched >>
                                                            ELSE /\ IF Kind \in {"printer", "swallower", "finisher", "catcher", "importer"}
                                                                       THEN /\ IF pOut = "real"
                                                                                  THEN /\ realOut' = Append(realOut, "s")
                                                                                       /\ buf' = buf
                                                                                  ELSE /\ buf' = [buf EXCEPT ![pOut] = Append(buf[pOut], "s")]
                                                                                       /\ UNCHANGED realOut
                                                                            /\ sched' = Append(sched, "T:step")
                                                                       ELSE /\ TRUE
                                                                            /\ UNCHANGED << buf, 
                                                                                            realOut, 
                                                                                            sched >>
                                                                 /\ UNCHANGED orphanRuns
                                                      /\ pc' = [pc EXCEPT !["T"] = "t_loop"]
                                           /\ UNCHANGED pending
          /\ UNCHANGED << patches, stdouts, pOut, raw, exc, fbs, tState, cur, 
                          xcell, released, nOutcome, excNext, mDone, crashed, 
                          excAtReturn, timedOut, tmp, osteps, mtmp >>

t_blocked == /\ pc["T"] = "t_blocked"
             /\ tState' = "blocked"
             /\ pc' = [pc EXCEPT !["T"] = "t_b2"]
             /\ UNCHANGED << patches, stdouts, pOut, buf, realOut, raw, exc, 
                             fbs, pending, cur, xcell, released, nOutcome, 
                             excNext, orphanRuns, mDone, crashed, excAtReturn, 
                             timedOut, sched, steps, tmp, osteps, mtmp >>

t_b2 == /\ pc["T"] = "t_b2"
        /\ released /\ pending
        /\ pending' = FALSE
        /\ tState' = "running"
        /\ pc' = [pc EXCEPT !["T"] = "t_exit"]
        /\ UNCHANGED << patches, stdouts, pOut, buf, realOut, raw, exc, fbs, 
                        cur, xcell, released, nOutcome, excNext, orphanRuns, 
                        mDone, crashed, excAtReturn, timedOut, sched, steps, 
                        tmp, osteps, mtmp >>

t_immortal == /\ pc["T"] = "t_immortal"
              /\ tState' = "immortal"
              /\ pc' = [pc EXCEPT !["T"] = "t_i2"]
              /\ UNCHANGED << patches, stdouts, pOut, buf, realOut, raw, exc, 
                              fbs, pending, cur, xcell, released, nOutcome, 
                              excNext, orphanRuns, mDone, crashed, excAtReturn, 
                              timedOut, sched, steps, tmp, osteps, mtmp >>

t_i2 == /\ pc["T"] = "t_i2"
        /\ FALSE
        /\ pc' = [pc EXCEPT !["T"] = "t_exit"]
        /\ UNCHANGED << patches, stdouts, pOut, buf, realOut, raw, exc, fbs, 
                        pending, tState, cur, xcell, released, nOutcome, 
                        excNext, orphanRuns, mDone, crashed, excAtReturn, 
                        timedOut, sched, steps, tmp, osteps, mtmp >>

t_exit == /\ pc["T"] = "t_exit"
          /\ sched' = Append(sched, "T:exit")
          /\ IF Design = "grader_bookkeeping"
                THEN /\ xcell' = [xcell EXCEPT ![MySlot] = IF Kind = "unwinder" THEN "unwind_error" ELSE "sysexit"]
                     /\ pc' = [pc EXCEPT !["T"] = "t_dead"]
                ELSE /\ pc' = [pc EXCEPT !["T"] = "th_check"]
                     /\ xcell' = xcell
          /\ UNCHANGED << patches, stdouts, pOut, buf, realOut, raw, exc, fbs, 
                          pending, tState, cur, released, nOutcome, excNext, 
                          orphanRuns, mDone, crashed, excAtReturn, timedOut, 
                          steps, tmp, osteps, mtmp >>

th_check == /\ pc["T"] = "th_check"
            /\ IF patches = <<>>
                  THEN /\ pc' = [pc EXCEPT !["T"] = "th_popOut"]
                  ELSE /\ pc' = [pc EXCEPT !["T"] = "th_pop"]
            /\ UNCHANGED << patches, stdouts, pOut, buf, realOut, raw, exc, 
                            fbs, pending, tState, cur, xcell, released, 
                            nOutcome, excNext, orphanRuns, mDone, crashed, 
                            excAtReturn, timedOut, sched, steps, tmp, osteps, 
                            mtmp >>

th_pop == /\ pc["T"] = "th_pop"
          /\ IF patches = <<>>
                THEN /\ crashed' = (crashed \cup {"T:IndexError"})
                     /\ pc' = [pc EXCEPT !["T"] = "t_dead"]
                     /\ UNCHANGED << patches, tmp >>
                ELSE /\ tmp' = Head(patches)
                     /\ patches' = Tail(patches)
                     /\ pc' = [pc EXCEPT !["T"] = "th_stop"]
                     /\ UNCHANGED crashed
          /\ UNCHANGED << stdouts, pOut, buf, realOut, raw, exc, fbs, pending, 
                          tState, cur, xcell, released, nOutcome, excNext, 
                          orphanRuns, mDone, excAtReturn, timedOut, sched, 
                          steps, osteps, mtmp >>

th_stop == /\ pc["T"] = "th_stop"
           /\ pOut' = tmp
           /\ pc' = [pc EXCEPT !["T"] = "th_popOut"]
           /\ UNCHANGED << patches, stdouts, buf, realOut, raw, exc, fbs, 
                           pending, tState, cur, xcell, released, nOutcome, 
                           excNext, orphanRuns, mDone, crashed, excAtReturn, 
                           timedOut, sched, steps, tmp, osteps, mtmp >>

th_popOut == /\ pc["T"] = "th_popOut"
             /\ IF stdouts = <<>>
                   THEN /\ crashed' = (crashed \cup {"T:IndexError"})
                        /\ pc' = [pc EXCEPT !["T"] = "t_dead"]
                        /\ UNCHANGED << stdouts, raw >>
                   ELSE /\ raw' = Append(raw, <<Head(stdouts), buf[Head(stdouts)]>>)
                        /\ stdouts' = Tail(stdouts)
                        /\ pc' = [pc EXCEPT !["T"] = "th_excW"]
                        /\ UNCHANGED crashed
             /\ UNCHANGED << patches, pOut, buf, realOut, exc, fbs, pending, 
                             tState, cur, xcell, released, nOutcome, excNext, 
                             orphanRuns, mDone, excAtReturn, timedOut, sched, 
                             steps, tmp, osteps, mtmp >>

th_excW == /\ pc["T"] = "th_excW"
           /\ exc' = "sysexit"
           /\ pc' = [pc EXCEPT !["T"] = "th_build"]
           /\ UNCHANGED << patches, stdouts, pOut, buf, realOut, raw, fbs, 
                           pending, tState, cur, xcell, released, nOutcome, 
                           excNext, orphanRuns, mDone, crashed, excAtReturn, 
                           timedOut, sched, steps, tmp, osteps, mtmp >>

th_build == /\ pc["T"] = "th_build"
            /\ fbs' = Append(fbs, exc)
            /\ pc' = [pc EXCEPT !["T"] = "t_dead"]
            /\ UNCHANGED << patches, stdouts, pOut, buf, realOut, raw, exc, 
                            pending, tState, cur, xcell, released, nOutcome, 
                            excNext, orphanRuns, mDone, crashed, excAtReturn, 
                            timedOut, sched, steps, tmp, osteps, mtmp >>

t_done == /\ pc["T"] = "t_done"
          /\ IF Design = "grader_bookkeeping"
                THEN /\ pc' = [pc EXCEPT !["T"] = "t_dead"]
                ELSE /\ pc' = [pc EXCEPT !["T"] = "te_check"]
          /\ UNCHANGED << patches, stdouts, pOut, buf, realOut, raw, exc, fbs, 
                          pending, tState, cur, xcell, released, nOutcome, 
                          excNext, orphanRuns, mDone, crashed, excAtReturn, 
                          timedOut, sched, steps, tmp, osteps, mtmp >>

te_check == /\ pc["T"] = "te_check"
            /\ IF pending
                  THEN /\ pc' = [pc EXCEPT !["T"] = "t_dead"]
                  ELSE /\ IF patches = <<>>
                             THEN /\ pc' = [pc EXCEPT !["T"] = "te_popOut"]
                             ELSE /\ pc' = [pc EXCEPT !["T"] = "te_pop"]
            /\ UNCHANGED << patches, stdouts, pOut, buf, realOut, raw, exc, 
                            fbs, pending, tState, cur, xcell, released, 
                            nOutcome, excNext, orphanRuns, mDone, crashed, 
                            excAtReturn, timedOut, sched, steps, tmp, osteps, 
                            mtmp >>

te_pop == /\ pc["T"] = "te_pop"
          /\ IF pending
                THEN /\ pc' = [pc EXCEPT !["T"] = "t_dead"]
                     /\ UNCHANGED << patches, crashed, tmp >>
                ELSE /\ IF patches = <<>>
                           THEN /\ crashed' = (crashed \cup {"T:IndexError"})
                                /\ pc' = [pc EXCEPT !["T"] = "t_dead"]
                                /\ UNCHANGED << patches, tmp >>
                           ELSE /\ tmp' = Head(patches)
                                /\ patches' = Tail(patches)
                                /\ pc' = [pc EXCEPT !["T"] = "te_stop"]
                                /\ UNCHANGED crashed
          /\ UNCHANGED << stdouts, pOut, buf, realOut, raw, exc, fbs, pending, 
                          tState, cur, xcell, released, nOutcome, excNext, 
                          orphanRuns, mDone, excAtReturn, timedOut, sched, 
                          steps, osteps, mtmp >>

te_stop == /\ pc["T"] = "te_stop"
           /\ IF pending
                 THEN /\ pc' = [pc EXCEPT !["T"] = "t_dead"]
                      /\ pOut' = pOut
                 ELSE /\ pOut' = tmp
                      /\ pc' = [pc EXCEPT !["T"] = "te_popOut"]
           /\ UNCHANGED << patches, stdouts, buf, realOut, raw, exc, fbs, 
                           pending, tState, cur, xcell, released, nOutcome, 
                           excNext, orphanRuns, mDone, crashed, excAtReturn, 
                           timedOut, sched, steps, tmp, osteps, mtmp >>

te_popOut == /\ pc["T"] = "te_popOut"
             /\ IF pending
                   THEN /\ pc' = [pc EXCEPT !["T"] = "t_dead"]
                        /\ UNCHANGED << stdouts, raw, crashed >>
                   ELSE /\ IF stdouts = <<>>
                              THEN /\ crashed' = (crashed \cup {"T:IndexError"})
                                   /\ pc' = [pc EXCEPT !["T"] = "t_dead"]
                                   /\ UNCHANGED << stdouts, raw >>
                              ELSE /\ raw' = Append(raw, <<Head(stdouts), buf[Head(stdouts)]>>)
                                   /\ stdouts' = Tail(stdouts)
                                   /\ pc' = [pc EXCEPT !["T"] = "t_dead"]
                                   /\ UNCHANGED crashed
             /\ UNCHANGED << patches, pOut, buf, realOut, exc, fbs, pending, 
                             tState, cur, xcell, released, nOutcome, excNext, 
                             orphanRuns, mDone, excAtReturn, timedOut, sched, 
                             steps, tmp, osteps, mtmp >>

t_dead == /\ pc["T"] = "t_dead"
          /\ tState' = "dead"
          /\ pc' = [pc EXCEPT !["T"] = "Done"]
          /\ UNCHANGED << patches, stdouts, pOut, buf, realOut, raw, exc, fbs, 
                          pending, cur, xcell, released, nOutcome, excNext, 
                          orphanRuns, mDone, crashed, excAtReturn, timedOut, 
                          sched, steps, tmp, osteps, mtmp >>

T == t_wait \/ t_begin \/ t_mock1 \/ t_mock2 \/ t_loop \/ t_blocked \/ t_b2
        \/ t_immortal \/ t_i2 \/ t_exit \/ th_check \/ th_pop \/ th_stop
        \/ th_popOut \/ th_excW \/ th_build \/ t_done \/ te_check \/ te_pop
        \/ te_stop \/ te_popOut \/ t_dead

o_wait == /\ pc["O"] = "o_wait"
          /\ orphanRuns
          /\ pc' = [pc EXCEPT !["O"] = "o_loop"]
          /\ UNCHANGED << patches, stdouts, pOut, buf, realOut, raw, exc, fbs, 
                          pending, tState, cur, xcell, released, nOutcome, 
                          excNext, orphanRuns, mDone, crashed, excAtReturn, 
                          timedOut, sched, steps, tmp, osteps, mtmp >>

o_loop == /\ pc["O"] = "o_loop"
          /\ IF osteps < MaxSteps + 2
                THEN /\ IF pOut = "real"
                           THEN /\ realOut' = Append(realOut, "s")
                                /\ buf' = buf
                           ELSE /\ buf' = [buf EXCEPT ![pOut] = Append(buf[pOut], "s")]
                                /\ UNCHANGED realOut
                     /\ osteps' = osteps + 1
                     /\ pc' = [pc EXCEPT !["O"] = "o_loop"]
                ELSE /\ pc' = [pc EXCEPT !["O"] = "Done"]
                     /\ UNCHANGED << buf, realOut, osteps >>
          /\ UNCHANGED << patches, stdouts, pOut, raw, exc, fbs, pending, 
                          tState, cur, xcell, released, nOutcome, excNext, 
                          orphanRuns, mDone, crashed, excAtReturn, timedOut, 
                          sched, steps, tmp, mtmp >>

O == o_wait \/ o_loop

m_begin == /\ pc["M"] = "m_begin"
           /\ IF Design = "grader_bookkeeping"
                 THEN /\ exc' = "none"
                      /\ pc' = [pc EXCEPT !["M"] = "m_mock1"]
                 ELSE /\ pc' = [pc EXCEPT !["M"] = "m_join"]
                      /\ exc' = exc
           /\ UNCHANGED << patches, stdouts, pOut, buf, realOut, raw, fbs, 
                           pending, tState, cur, xcell, released, nOutcome, 
                           excNext, orphanRuns, mDone, crashed, excAtReturn, 
                           timedOut, sched, steps, tmp, osteps, mtmp >>

m_mock1 == /\ pc["M"] = "m_mock1"
           /\ stdouts' = <<"b1">> \o stdouts
           /\ pc' = [pc EXCEPT !["M"] = "m_mock2"]
           /\ UNCHANGED << patches, pOut, buf, realOut, raw, exc, fbs, pending, 
                           tState, cur, xcell, released, nOutcome, excNext, 
                           orphanRuns, mDone, crashed, excAtReturn, timedOut, 
                           sched, steps, tmp, osteps, mtmp >>

m_mock2 == /\ pc["M"] = "m_mock2"
           /\ patches' = <<pOut>> \o patches
           /\ pOut' = "b1"
           /\ tState' = "running"
           /\ pc' = [pc EXCEPT !["M"] = "m_join"]
           /\ UNCHANGED << stdouts, buf, realOut, raw, exc, fbs, pending, cur, 
                           xcell, released, nOutcome, excNext, orphanRuns, 
                           mDone, crashed, excAtReturn, timedOut, sched, steps, 
                           tmp, osteps, mtmp >>

m_join == /\ pc["M"] = "m_join"
          /\ tState # "new"
          /\ \/ /\ tState = "dead"
                /\ pc' = [pc EXCEPT !["M"] = "m_finished"]
                /\ UNCHANGED timedOut
             \/ /\ tState # "dead"
                /\ timedOut' = TRUE
                /\ pc' = [pc EXCEPT !["M"] = "m_term"]
          /\ UNCHANGED << patches, stdouts, pOut, buf, realOut, raw, exc, fbs, 
                          pending, tState, cur, xcell, released, nOutcome, 
                          excNext, orphanRuns, mDone, crashed, excAtReturn, 
                          sched, steps, tmp, osteps, mtmp >>

m_term == /\ pc["M"] = "m_term"
          /\ IF tState # "dead"
                THEN /\ pending' = TRUE
                ELSE /\ TRUE
                     /\ UNCHANGED pending
          /\ sched' = Append(sched, "M:terminated")
          /\ pc' = [pc EXCEPT !["M"] = "mh_entry"]
          /\ UNCHANGED << patches, stdouts, pOut, buf, realOut, raw, exc, fbs, 
                          tState, cur, xcell, released, nOutcome, excNext, 
                          orphanRuns, mDone, crashed, excAtReturn, timedOut, 
                          steps, tmp, osteps, mtmp >>

mh_entry == /\ pc["M"] = "mh_entry"
            /\ sched' = Append(sched, "M:handler")
            /\ pc' = [pc EXCEPT !["M"] = "mh_check"]
            /\ UNCHANGED << patches, stdouts, pOut, buf, realOut, raw, exc, 
                            fbs, pending, tState, cur, xcell, released, 
                            nOutcome, excNext, orphanRuns, mDone, crashed, 
                            excAtReturn, timedOut, steps, tmp, osteps, mtmp >>

mh_check == /\ pc["M"] = "mh_check"
            /\ IF patches = <<>>
                  THEN /\ pc' = [pc EXCEPT !["M"] = "mh_popOut"]
                  ELSE /\ pc' = [pc EXCEPT !["M"] = "mh_pop"]
            /\ UNCHANGED << patches, stdouts, pOut, buf, realOut, raw, exc, 
                            fbs, pending, tState, cur, xcell, released, 
                            nOutcome, excNext, orphanRuns, mDone, crashed, 
                            excAtReturn, timedOut, sched, steps, tmp, osteps, 
                            mtmp >>

mh_pop == /\ pc["M"] = "mh_pop"
          /\ IF patches = <<>>
                THEN /\ crashed' = (crashed \cup {"M:IndexError"})
                     /\ pc' = [pc EXCEPT !["M"] = "m_ret"]
                     /\ UNCHANGED << patches, mtmp >>
                ELSE /\ mtmp' = Head(patches)
                     /\ patches' = Tail(patches)
                     /\ pc' = [pc EXCEPT !["M"] = "mh_stop"]
                     /\ UNCHANGED crashed
          /\ UNCHANGED << stdouts, pOut, buf, realOut, raw, exc, fbs, pending, 
                          tState, cur, xcell, released, nOutcome, excNext, 
                          orphanRuns, mDone, excAtReturn, timedOut, sched, 
                          steps, tmp, osteps >>

mh_stop == /\ pc["M"] = "mh_stop"
           /\ pOut' = mtmp
           /\ sched' = Append(sched, "M:unpatched")
           /\ pc' = [pc EXCEPT !["M"] = "mh_popOut"]
           /\ UNCHANGED << patches, stdouts, buf, realOut, raw, exc, fbs, 
                           pending, tState, cur, xcell, released, nOutcome, 
                           excNext, orphanRuns, mDone, crashed, excAtReturn, 
                           timedOut, steps, tmp, osteps, mtmp >>

mh_popOut == /\ pc["M"] = "mh_popOut"
             /\ IF Design = "grader_bookkeeping"
                   THEN /\ IF stdouts = <<>>
                              THEN /\ crashed' = (crashed \cup {"M:IndexError"})
                                   /\ pc' = [pc EXCEPT !["M"] = "m_ret"]
                                   /\ UNCHANGED << stdouts, raw >>
                              ELSE /\ raw' = Append(raw, <<Head(stdouts), buf[Head(stdouts)]>>)
                                   /\ stdouts' = Tail(stdouts)
                                   /\ pc' = [pc EXCEPT !["M"] = "mh_excW"]
                                   /\ UNCHANGED crashed
                   ELSE /\ pc' = [pc EXCEPT !["M"] = "mh_excW"]
                        /\ UNCHANGED << stdouts, raw, crashed >>
             /\ UNCHANGED << patches, pOut, buf, realOut, exc, fbs, pending, 
                             tState, cur, xcell, released, nOutcome, excNext, 
                             orphanRuns, mDone, excAtReturn, timedOut, sched, 
                             steps, tmp, osteps, mtmp >>

mh_excW == /\ pc["M"] = "mh_excW"
           /\ exc' = (IF TimeoutPolicy = "thread_exc_wins" /\ xcell["r1"] = "unwind_error" THEN "unwind_error" ELSE "timeout")
           /\ pc' = [pc EXCEPT !["M"] = "mh_build"]
           /\ UNCHANGED << patches, stdouts, pOut, buf, realOut, raw, fbs, 
                           pending, tState, cur, xcell, released, nOutcome, 
                           excNext, orphanRuns, mDone, crashed, excAtReturn, 
                           timedOut, sched, steps, tmp, osteps, mtmp >>

mh_build == /\ pc["M"] = "mh_build"
            /\ fbs' = Append(fbs, exc)
            /\ pc' = [pc EXCEPT !["M"] = "m_ret"]
            /\ UNCHANGED << patches, stdouts, pOut, buf, realOut, raw, exc, 
                            pending, tState, cur, xcell, released, nOutcome, 
                            excNext, orphanRuns, mDone, crashed, excAtReturn, 
                            timedOut, sched, steps, tmp, osteps, mtmp >>

m_finished == /\ pc["M"] = "m_finished"
              /\ IF Design = "grader_bookkeeping"
                    THEN /\ pc' = [pc EXCEPT !["M"] = "mf_pop"]
                    ELSE /\ pc' = [pc EXCEPT !["M"] = "m_ret"]
              /\ UNCHANGED << patches, stdouts, pOut, buf, realOut, raw, exc, 
                              fbs, pending, tState, cur, xcell, released, 
                              nOutcome, excNext, orphanRuns, mDone, crashed, 
                              excAtReturn, timedOut, sched, steps, tmp, osteps, 
                              mtmp >>

mf_pop == /\ pc["M"] = "mf_pop"
          /\ mtmp' = Head(patches)
          /\ patches' = Tail(patches)
          /\ pc' = [pc EXCEPT !["M"] = "mf_stop"]
          /\ UNCHANGED << stdouts, pOut, buf, realOut, raw, exc, fbs, pending, 
                          tState, cur, xcell, released, nOutcome, excNext, 
                          orphanRuns, mDone, crashed, excAtReturn, timedOut, 
                          sched, steps, tmp, osteps >>

mf_stop == /\ pc["M"] = "mf_stop"
           /\ pOut' = mtmp
           /\ pc' = [pc EXCEPT !["M"] = "mf_popOut"]
           /\ UNCHANGED << patches, stdouts, buf, realOut, raw, exc, fbs, 
                           pending, tState, cur, xcell, released, nOutcome, 
                           excNext, orphanRuns, mDone, crashed, excAtReturn, 
                           timedOut, sched, steps, tmp, osteps, mtmp >>

mf_popOut == /\ pc["M"] = "mf_popOut"
             /\ raw' = Append(raw, <<Head(stdouts), buf[Head(stdouts)]>>)
             /\ stdouts' = Tail(stdouts)
             /\ pc' = [pc EXCEPT !["M"] = "m_ret"]
             /\ UNCHANGED << patches, pOut, buf, realOut, exc, fbs, pending, 
                             tState, cur, xcell, released, nOutcome, excNext, 
                             orphanRuns, mDone, crashed, excAtReturn, timedOut, 
                             sched, steps, tmp, osteps, mtmp >>

m_ret == /\ pc["M"] = "m_ret"
         /\ excAtReturn' = exc
         /\ sched' = Append(sched, "M:returned")
         /\ pc' = [pc EXCEPT !["M"] = "n_begin"]
         /\ UNCHANGED << patches, stdouts, pOut, buf, realOut, raw, exc, fbs, 
                         pending, tState, cur, xcell, released, nOutcome, 
                         excNext, orphanRuns, mDone, crashed, timedOut, steps, 
                         tmp, osteps, mtmp >>

n_begin == /\ pc["M"] = "n_begin"
           /\ exc' = "none"
           /\ cur' = "r2"
           /\ IF NextRun = "threaded" /\ Handback = "shared_field"
                 THEN /\ xcell' = [xcell EXCEPT !["r2"] = "none"]
                 ELSE /\ TRUE
                      /\ xcell' = xcell
           /\ pc' = [pc EXCEPT !["M"] = "n_mock1"]
           /\ UNCHANGED << patches, stdouts, pOut, buf, realOut, raw, fbs, 
                           pending, tState, released, nOutcome, excNext, 
                           orphanRuns, mDone, crashed, excAtReturn, timedOut, 
                           sched, steps, tmp, osteps, mtmp >>

n_mock1 == /\ pc["M"] = "n_mock1"
           /\ stdouts' = <<"b2">> \o stdouts
           /\ pc' = [pc EXCEPT !["M"] = "n_mock2"]
           /\ UNCHANGED << patches, pOut, buf, realOut, raw, exc, fbs, pending, 
                           tState, cur, xcell, released, nOutcome, excNext, 
                           orphanRuns, mDone, crashed, excAtReturn, timedOut, 
                           sched, steps, tmp, osteps, mtmp >>

n_mock2 == /\ pc["M"] = "n_mock2"
           /\ patches' = <<pOut>> \o patches
           /\ pOut' = "b2"
           /\ pc' = [pc EXCEPT !["M"] = "n_print"]
           /\ UNCHANGED << stdouts, buf, realOut, raw, exc, fbs, pending, 
                           tState, cur, xcell, released, nOutcome, excNext, 
                           orphanRuns, mDone, crashed, excAtReturn, timedOut, 
                           sched, steps, tmp, osteps, mtmp >>

n_print == /\ pc["M"] = "n_print"
           /\ IF pOut = "real"
                 THEN /\ realOut' = Append(realOut, "n")
                      /\ buf' = buf
                 ELSE /\ buf' = [buf EXCEPT ![pOut] = Append(buf[pOut], "n")]
                      /\ UNCHANGED realOut
           /\ sched' = Append(sched, "M:nextprint")
           /\ IF NextRun = "threaded" /\ Kind = "blocked"
                 THEN /\ released' = TRUE
                 ELSE /\ TRUE
                      /\ UNCHANGED released
           /\ pc' = [pc EXCEPT !["M"] = "n_join"]
           /\ UNCHANGED << patches, stdouts, pOut, raw, exc, fbs, pending, 
                           tState, cur, xcell, nOutcome, excNext, orphanRuns, 
                           mDone, crashed, excAtReturn, timedOut, steps, tmp, 
                           osteps, mtmp >>

n_join == /\ pc["M"] = "n_join"
          /\ IF NextRun = "threaded" /\ xcell["r2"] # "none"
                THEN /\ nOutcome' = xcell["r2"]
                ELSE /\ TRUE
                     /\ UNCHANGED nOutcome
          /\ pc' = [pc EXCEPT !["M"] = "n_check"]
          /\ UNCHANGED << patches, stdouts, pOut, buf, realOut, raw, exc, fbs, 
                          pending, tState, cur, xcell, released, excNext, 
                          orphanRuns, mDone, crashed, excAtReturn, timedOut, 
                          sched, steps, tmp, osteps, mtmp >>

n_check == /\ pc["M"] = "n_check"
           /\ IF patches = <<>>
                 THEN /\ pc' = [pc EXCEPT !["M"] = "n_popOut"]
                 ELSE /\ pc' = [pc EXCEPT !["M"] = "n_pop"]
           /\ UNCHANGED << patches, stdouts, pOut, buf, realOut, raw, exc, fbs, 
                           pending, tState, cur, xcell, released, nOutcome, 
                           excNext, orphanRuns, mDone, crashed, excAtReturn, 
                           timedOut, sched, steps, tmp, osteps, mtmp >>

n_pop == /\ pc["M"] = "n_pop"
         /\ IF patches = <<>>
               THEN /\ crashed' = (crashed \cup {"N:IndexError"})
                    /\ pc' = [pc EXCEPT !["M"] = "n_done"]
                    /\ UNCHANGED << patches, mtmp >>
               ELSE /\ mtmp' = Head(patches)
                    /\ patches' = Tail(patches)
                    /\ pc' = [pc EXCEPT !["M"] = "n_stop"]
                    /\ UNCHANGED crashed
         /\ UNCHANGED << stdouts, pOut, buf, realOut, raw, exc, fbs, pending, 
                         tState, cur, xcell, released, nOutcome, excNext, 
                         orphanRuns, mDone, excAtReturn, timedOut, sched, 
                         steps, tmp, osteps >>

n_stop == /\ pc["M"] = "n_stop"
          /\ pOut' = mtmp
          /\ pc' = [pc EXCEPT !["M"] = "n_popOut"]
          /\ UNCHANGED << patches, stdouts, buf, realOut, raw, exc, fbs, 
                          pending, tState, cur, xcell, released, nOutcome, 
                          excNext, orphanRuns, mDone, crashed, excAtReturn, 
                          timedOut, sched, steps, tmp, osteps, mtmp >>

n_popOut == /\ pc["M"] = "n_popOut"
            /\ IF stdouts = <<>>
                  THEN /\ crashed' = (crashed \cup {"N:IndexError"})
                       /\ UNCHANGED << stdouts, raw >>
                  ELSE /\ raw' = Append(raw, <<Head(stdouts), buf[Head(stdouts)]>>)
                       /\ stdouts' = Tail(stdouts)
                       /\ UNCHANGED crashed
            /\ pc' = [pc EXCEPT !["M"] = "n_record"]
            /\ UNCHANGED << patches, pOut, buf, realOut, exc, fbs, pending, 
                            tState, cur, xcell, released, nOutcome, excNext, 
                            orphanRuns, mDone, excAtReturn, timedOut, sched, 
                            steps, tmp, osteps, mtmp >>

n_record == /\ pc["M"] = "n_record"
            /\ IF nOutcome # "none"
                  THEN /\ exc' = nOutcome
                       /\ fbs' = Append(fbs, nOutcome)
                  ELSE /\ TRUE
                       /\ UNCHANGED << exc, fbs >>
            /\ pc' = [pc EXCEPT !["M"] = "n_done"]
            /\ UNCHANGED << patches, stdouts, pOut, buf, realOut, raw, pending, 
                            tState, cur, xcell, released, nOutcome, excNext, 
                            orphanRuns, mDone, crashed, excAtReturn, timedOut, 
                            sched, steps, tmp, osteps, mtmp >>

n_done == /\ pc["M"] = "n_done"
          /\ excNext' = exc
          /\ mDone' = TRUE
          /\ pc' = [pc EXCEPT !["M"] = "Done"]
          /\ UNCHANGED << patches, stdouts, pOut, buf, realOut, raw, exc, fbs, 
                          pending, tState, cur, xcell, released, nOutcome, 
                          orphanRuns, crashed, excAtReturn, timedOut, sched, 
                          steps, tmp, osteps, mtmp >>

M == m_begin \/ m_mock1 \/ m_mock2 \/ m_join \/ m_term \/ mh_entry
        \/ mh_check \/ mh_pop \/ mh_stop \/ mh_popOut \/ mh_excW
        \/ mh_build \/ m_finished \/ mf_pop \/ mf_stop \/ mf_popOut
        \/ m_ret \/ n_begin \/ n_mock1 \/ n_mock2 \/ n_print \/ n_join
        \/ n_check \/ n_pop \/ n_stop \/ n_popOut \/ n_record \/ n_done

(* Allow infinite stuttering to prevent deadlock on termination. *)
Terminating == /\ \A self \in ProcSet: pc[self] = "Done"
               /\ UNCHANGED vars

Next == T \/ O \/ M
           \/ Terminating

Spec == Init /\ [][Next]_vars

Termination == <>(\A self \in ProcSet: pc[self] = "Done")

\* END TRANSLATION

ExcIsTimeout  == (excAtReturn # "unset" /\ timedOut) => excAtReturn = "timeout"
ExcStable     == (pc["M"] = "n_begin" /\ timedOut) => exc = "timeout"
OneRuntimeFb  == (Quiet /\ timedOut) => fbs = <<"timeout">>
StacksEmpty   == Quiet => patches = <<>> /\ stdouts = <<>> /\ pOut = "real"
NoCrash       == crashed = {}
NextRunClean  == Quiet => \E i \in 1..Len(raw) : raw[i] = <<"b2", <<"n">>>>
NextExcNone   == Quiet => excNext = "none"     \* the later execution reports no exception of its own
NoRealLeak    == Quiet => realOut = <<>>       \* informational: not part of property C14
FirstShare == IF \E i \in 1..Len(raw) : raw[i][1] = "b1"
              THEN raw[CHOOSE i \in 1..Len(raw) : raw[i][1] = "b1"][2] ELSE <<>>
ExportSched == Quiet => PrintT(<<"VP", ToJson([sched |-> sched, exc |-> excAtReturn, fbs |-> fbs, timedOut |-> timedOut,
                                               share |-> FirstShare, tState |-> tState])>>)
QuietReachable == ~Quiet                        \* must be VIOLATED (vacuity guard)
=============================================================================
