"""C09: TIFA initialisation / unused diagnoses against specs/TifaFlow.tla (+ TifaLoops.tla for loops and calls)."""
import json

from engine import tlc
from engine.core import shard_map
from engine.tlc import MachineryError

CFGS = {"quick": ["MC_TifaFlow_q.cfg", "MC_TifaFlow_typed_q.cfg", "MC_TifaFlow_cond_q.cfg", "MC_TifaFlow_deep_q.cfg"],
        "thorough": ["MC_TifaFlow_t.cfg", "MC_TifaFlow_typed_t.cfg", "MC_TifaFlow_cond_t.cfg", "MC_TifaFlow_deep_q.cfg"]}
LOOP_CFGS = {"quick": ["MC_TifaLoops_q.cfg", "MC_TifaLoops_calls_q.cfg"], "thorough": ["MC_TifaLoops_t.cfg", "MC_TifaLoops_calls_q.cfg"]}


def shape_key(m):
    toks = "".join(t["t"] for t in m["prog"])
    return toks


def run(prop, tier, seed, ctx):
    ctx.assumptions += ["ground truth = set of concrete stores per combination of branch outcomes (specs/TifaFlow.tla); "
                        "read_out_of_scope at the read's line counts as the equivalent out-of-scope read issue",
                        "unused: only the must / must-not cases of the statement are checked (middle case is don't-care)",
                        "token programs are rendered one statement per token (bind/tifaflow.py)"]
    ctx.cov["rule"] = ("case = one complete token program enumerated by TLC (all programs up to the token bound), analysed "
                       "by real tifa_analysis; non-trivial = contains a branch and a read; distinct = distinct token sequence")
    num = 150 if tier == "quick" else 8000
    for cfg in CFGS[tier] + ["SIM_TifaFlow_deep.cfg"]:
        if cfg.startswith("SIM_"):
            # deep random programs (tlc -simulate): up to 16 tokens over three variables, two types, a condition
            # variable, copies, nesting depth 3; ReadsExact / UnusedExact evaluated by TLC along every program
            res = tlc.run("TifaFlow", cfg, workers=4, timeout=900, simulate="num=%d" % num, extra=["-depth", "20", "-seed", str(1000 + seed)])
            tlc.require_ok(res, "simulation " + cfg)
            ctx.add_tlc(res, "simulation (%d programs grown token by token) %s" % (4 * num, cfg))
            res.records = list({json.dumps(r["prog"]): r for r in res.records}.values())
            if len(res.records) < num:
                raise MachineryError("simulation exported only %d programs" % len(res.records))
        else:
            res = tlc.run("TifaFlow", cfg, workers=8, timeout=2400)
            tlc.require_ok(res, cfg)
            ctx.add_tlc(res, "exhaustive " + cfg + " (TIFA layer exact w.r.t. ground truth)")
        cases = list(enumerate(res.records))
        mism = shard_map("bind.tifaflow", "replay_chunk", cases)
        ctx.cov["replayed_cases"] += len(cases)
        ctx.cov["traces_validated_against_impl"] += len(cases)
        ctx.count(len(cases), (json.dumps(r["prog"]) for _, r in cases
                               if any(t["t"] == "I" for t in r["prog"]) and r["reads"]))
        ctx.sample({"kind": "program", "cfg": cfg, "tokens": res.records[len(res.records) // 2]["prog"]})
        for m in mism:
            if m["kind"] == "read":
                key = "C09|read|%s->%s" % (m["expected"], m["observed"])
                what = "read of %s at line %d: TIFA says %s, the execution paths say %s  ::  %s" % (m["name"], m["line"], m["observed"], m["expected"], m["source"].strip().replace("\n", " / "))
            elif m["kind"] == "unused":
                key = "C09|unused|%s" % m["expected"]
                what = "variable %s: unused report %s, paths require %s  ::  %s" % (m["name"], m["observed"], m["expected"], m["source"].strip().replace("\n", " / "))
            else:
                key = "C09|%s" % m["kind"]
                what = "%s: %s  ::  %s" % (m["kind"], m["detail"], m["source"].strip().replace("\n", " / "))
            ctx.violation(key, what, m)
    ctx.cov["exhaustive"] = True
    # ---- loops and calls: soundness only (no missed uninitialised read)
    from checks import tifaloops
    tifaloops.run_part(LOOP_CFGS[tier], ctx)
    mres = tlc.run("TifaFlow", "MUT_TifaFlow_keep_when_missing.cfg", workers=4, timeout=300)
    if "ReadsExact" not in mres.violated:
        raise MachineryError("mutant keep_when_missing did not violate ReadsExact")
    ctx.notes.append("self-test: mutant keep_when_missing violates ReadsExact")


def replay(prop, rep):
    from bind import tifaflow as B
    from engine.core import setup_repo_path
    setup_repo_path()
    r = rep["replay"]
    print(r.get("source"))
    print(json.dumps(B.analyse(r["source"]), indent=1))
    return 1
